"""C09 — Bivariate copula samples have uniform margins and the model's dependence."""
import math

import numpy as np
from scipy import stats

import vcommon as vc
from props import bivlib as B

GEN_TARGETS = ('Bivariate',)
DRIVER_MAIN = 'Main/Biv.lean'
DRIVER_TARGETS = ['CopVerif.Driver.Biv']
ALWAYS_SEARCH = True
RULE = ('family x theta (grid + random, |tau|<=0.8) x seed x n in {1..200}: the two np.random.uniform arrays drawn during '
        'the real sample() call are recorded (harness-side wrapper) and re-created from the model seed; the real output '
        'must equal the generated Base.sample applied to the recorded draws (Clayton within 1e-12, Frank/Gumbel with the '
        'bisection stand-in for brentq within 1e-8 or equal residuals), be finite and in [0,1]; tau guard; distinct by '
        '(family, theta, seed, n), non-trivial when n >= 2')
PARTIAL = ['kendall_value: tau(C_theta) = theta/(theta+2) etc. as an integral identity is not proved (calibration maps are C10)',
           'Rosenblatt identity for Clayton/Gumbel: improper integral form in Props/C09b.lean when present',
           'uniformity/independence of numpy MT19937 streams: trusted base; statistical oracles run only in the search']
ASSUMPTIONS = ['np.random.uniform(0,1,n) returns i.i.d. U(0,1) draws from the global MT19937 state']


class RecordUniform:
    def __enter__(self):
        self.calls = []
        self.orig = np.random.uniform

        def wrapped(*a, **k):
            out = self.orig(*a, **k)
            self.calls.append((a, k, np.array(out, copy=True)))
            return out
        np.random.uniform = wrapped
        return self

    def __exit__(self, *e):
        np.random.uniform = self.orig


def run(ctx, lean):
    rng = ctx.rng('sample')
    bad = None
    guard_bad = None
    for fam in B.FAMS:
        thetas = B.theta_grid(fam) + [B.theta_random(fam, rng) for _ in range(3 * ctx.scale)]
        for th in thetas:
            if fam == 'gumbel' and th == 1.0000001:
                continue
            n = rng.choice([1, 2, 3, 5, 10, 40] + ([200] if fam == 'clayton' else []))
            seed = rng.randrange(2 ** 31)
            tau = B.tau_of(fam, th)
            c = B.make(fam, th, tau)
            c.set_random_state(seed)
            with RecordUniform() as rec:
                try:
                    with np.errstate(all='ignore'):
                        out = np.asarray(c.sample(n), dtype=float)
                    res = 'ok'
                except Exception as e:  # noqa
                    res = 'err ' + vc.exc_kind(e)
            ctx.case((fam, th, seed, n), nontrivial=n >= 2)
            ctx.count(f'{fam}.{res}')
            if res != 'ok':
                # a lane whose root lies below the Brent bracket (known C08 finding) may raise here
                ctx.count(f'{fam}.sample-raised')
                continue
            draws = [cl[2] for cl in rec.calls if np.shape(cl[2]) == (n,)]
            ok_args = all(cl[0][:2] == (0, 1) for cl in rec.calls)
            rs = np.random.RandomState(seed)
            exp1, exp2 = rs.uniform(0, 1, n), rs.uniform(0, 1, n)
            d = None
            if len(draws) != 2 or not ok_args:
                d = f'expected two uniform(0,1,{n}) draws, saw {[(cl[0], np.shape(cl[2])) for cl in rec.calls]}'
            elif not (np.array_equal(draws[0], exp1) and np.array_equal(draws[1], exp2)):
                d = 'recorded draws are not the stream of RandomState(seed)'
            elif out.shape != (n, 2) or not np.all(np.isfinite(out)) or out.min() < 0 or out.max() > 1:
                d = f'shape/range: {out.shape} min {out.min()} max {out.max()}'
            elif lean is not None:
                line = (f'biv sample {fam} {n} {vc.f2h(th)} {vc.f2h(tau)} {vc.f2h(B.EPS)} ' +
                        ' '.join(vc.f2h(x) for x in list(draws[0]) + list(draws[1])))
                r = lean.floats(line)
                if r[0] != 'ok' or len(r[1]) != 2 * n:
                    d = f'model: {r[0]} {str(r[1])[:80]}'
                else:
                    m = np.array(r[1]).reshape(n, 2)
                    if not np.array_equal(m[:, 1], out[:, 1]):
                        d = 'second column differs from the model (must be the first draw itself)'
                    else:
                        for i in range(n):
                            a, b = out[i, 0], m[i, 0]
                            tol = 1e-12 if fam == 'clayton' else 1e-8
                            if abs(a - b) <= tol * max(1, abs(a)):
                                continue
                            cc, vv = draws[1][i], draws[0][i]
                            ra = float(c.partial_derivative(np.array([[a, vv]]))[0]) - cc
                            rb = float(c.partial_derivative(np.array([[b, vv]]))[0]) - cc
                            if abs(ra) <= 1e-10 and abs(rb) <= 1e-10:
                                ctx.count('flat-root')
                                continue
                            d = f'row {i}: real u={a!r} model u={b!r} (c={cc}, v={vv})'
                            break
            if d and bad is None:
                bad = {'family': fam, 'theta': th, 'seed': seed, 'n': n, 'diff': d}
            if len(ctx.samples) < 3:
                ctx.sample({'family': fam, 'theta': th, 'seed': seed, 'n': n, 'first_rows': out[:2].tolist()})
        # tau guard: ValueError before any draw
        for tau in (1.5, -1.0000001, 7.0):
            c = B.make(fam, B.theta_grid(fam)[3], tau)
            c.set_random_state(3)
            st0 = c.random_state.get_state()[1].copy()
            with RecordUniform() as rec:
                try:
                    c.sample(4)
                    r = 'ok'
                except Exception as e:  # noqa
                    r = 'err ' + vc.exc_kind(e)
            ctx.case((fam, 'guard', tau))
            m = 'err ValueError'
            if lean is not None:
                m = lean.ask(f'biv sample {fam} 1 {vc.f2h(2.0)} {vc.f2h(tau)} {vc.f2h(B.EPS)} {vc.f2h(0.5)} {vc.f2h(0.5)}')
            if (r != 'err ValueError' or rec.calls or m != 'err ValueError') and guard_bad is None:
                guard_bad = {'family': fam, 'tau': tau, 'real': r, 'draws': len(rec.calls), 'model': m}
    if lean is None:
        ctx.ob('corr:sample~Gen.Base.sample(recorded draws)', False, 'tie', 'driver unavailable')
    else:
        ctx.ob('corr:sample~Gen.Base.sample(recorded draws)', bad is None, 'tie', bad or 'ok')
    ctx.ob('corr:tau-guard-before-draws', guard_bad is None, 'tie', guard_bad or 'ok')


# -------------------------------------------------------------------- statistical oracle (search only)
def dkw(n, delta):
    return math.sqrt(math.log(2 / delta) / (2 * n))


def deterministic_oracles(ctx, rng):
    """cheap exact checks on the real code (run in the quick tier too)"""
    checked = found = 0
    # (i) Gumbel theta = 1 is the independence copula: sample = (c, v), the two draws themselves
    c = B.make('gumbel', 1.0, 0.0)
    seed = rng.randrange(2 ** 31)
    c.set_random_state(seed)
    try:
        out = np.asarray(c.sample(50), dtype=float)
        rs = np.random.RandomState(seed)
        v, cc = rs.uniform(0, 1, 50), rs.uniform(0, 1, 50)
        checked += 1
        if not (np.array_equal(out[:, 1], v) and np.array_equal(out[:, 0], cc)):
            found += 1
            ctx.fail_input('gumbel.sample', {'theta': 1.0, 'tau': 0.0, 'seed': seed, 'n': 50},
                           {'first_rows': out[:3].tolist(), 'expected_first_rows': np.column_stack((cc, v))[:3].tolist()},
                           'at tau = 0 the two columns are the two independent uniform draws', 'gumbel.sample:theta=1-not-independent')
    except Exception as e:  # noqa
        found += 1
        ctx.fail_input('gumbel.sample', {'theta': 1.0, 'seed': seed}, f'{vc.exc_kind(e)}: {e}', 'sample works at tau = 0',
                       'gumbel.sample:raises')
    # (iii) tiny batches: sample(1) / sample(2) under many seeds; every row must invert the recorded draws
    for fam in B.FAMS:
        # strong dependence (the last two grid values) and very weak but non-zero dependence, where a shortcut for
        # "practically independent" parameters would replace the conditional inverse
        weak = {'clayton': [2e-6, 1e-3, 0.02], 'gumbel': [1.0000001, 1.001, 1.02, 1.045], 'frank': [1e-3, -0.02]}[fam]
        for th in B.theta_grid(fam)[-2:] + weak:
            if fam == 'gumbel' and th > 3:
                th = 3.0
            cobj = B.make(fam, th, B.tau_of(fam, th))
            for seed in range(40):
                n = 1 + (seed % 2)
                cobj.set_random_state(seed)
                rs = np.random.RandomState(seed)
                v, cc = rs.uniform(0, 1, n), rs.uniform(0, 1, n)
                try:
                    with np.errstate(all='ignore'):
                        out = np.asarray(cobj.sample(n), dtype=float)
                        res = np.asarray(cobj.partial_derivative(np.column_stack((out[:, 0], v))), dtype=float) - cc
                except Exception:  # noqa  (root below the Brent bracket: recorded C08 finding)
                    continue
                checked += 1
                if not (np.array_equal(out[:, 1], v) and np.all(np.abs(res) <= 1e-7)):
                    found += 1
                    ctx.fail_input(f'{fam}.sample', {'theta': th, 'seed': seed, 'n': n},
                                   {'rows': out.tolist(), 'draws_v': v.tolist(), 'draws_c': cc.tolist(), 'h(u,v)-c': res.tolist()},
                                   'each row is (u, v) with v the first draw and partial_derivative(u, v) = second draw',
                                   f'{fam}.sample:row-not-conditional-inverse')
                    break
    # (ii) history: fit, sample, re-fit on other data, sample  ==  a fresh model fitted on the second data
    for fam in B.FAMS:
        taus = [0.25, 0.6] if fam != 'frank' else [-0.5, 0.45]
        data = []
        for i, tau in enumerate(taus):
            rho = math.sin(math.pi * tau / 2)
            z = np.random.RandomState(100 + i).multivariate_normal([0, 0], [[1, rho], [rho, 1]], size=150)
            data.append(stats.norm.cdf(z))
        obj = B.cls_of(fam)()
        fresh = B.cls_of(fam)()
        try:
            obj.fit(data[0])
            obj.set_random_state(5)
            obj.sample(5)
            obj.fit(data[1])
            fresh.fit(data[1])
            obj.set_random_state(9)
            fresh.set_random_state(9)
            a, b = np.asarray(obj.sample(20)), np.asarray(fresh.sample(20))
        except Exception as e:  # noqa
            found += 1
            ctx.fail_input(f'{fam}.sample', {'history': 'fit, sample, refit, sample'}, f'{vc.exc_kind(e)}: {e}',
                           'refit then sample works', f'{fam}.sample:refit-raises')
            continue
        checked += 1
        if not (obj.theta == fresh.theta and obj.tau == fresh.tau and np.array_equal(a, b)):
            found += 1
            ctx.fail_input(f'{fam}.sample', {'history': 'fit(data0), sample, fit(data1), sample', 'taus': taus},
                           {'refitted': {'tau': obj.tau, 'theta': obj.theta}, 'fresh': {'tau': fresh.tau, 'theta': fresh.theta}},
                           'a re-fitted model samples like a fresh model fitted on the same data (stream = f(parameters, seed))',
                           f'{fam}.sample:refit-differs-from-fresh')
    # (ii-b) history with a refused re-fit: fit(data0), then a re-fit on data that check_marginal refuses (a value outside
    # [0, 1]); the refusal leaves the model as it was — tau and theta still belong together — and it samples like a
    # fresh model fitted on data0
    for fam in B.FAMS:
        tau0 = 0.45
        rho = math.sin(math.pi * tau0 / 2)
        z = np.random.RandomState(321).multivariate_normal([0, 0], [[1, rho], [rho, 1]], size=150)
        d0 = stats.norm.cdf(z)
        z2 = np.random.RandomState(322).multivariate_normal([0, 0], [[1, 0.1], [0.1, 1]], size=150)
        for bname, badrow in (('value-above-1', [1.5, 0.5]), ('value-below-0', [0.4, -0.3])):
            dbad = stats.norm.cdf(z2)
            dbad[7] = badrow
            obj, fresh = B.cls_of(fam)(), B.cls_of(fam)()
            obj.fit(d0)
            fresh.fit(d0)
            before = (obj.tau, obj.theta)
            try:
                obj.fit(dbad)
                refused = False
            except ValueError:
                refused = True
            checked += 1
            if not refused:
                continue            # acceptance of such data is C10's subject, not this property's
            obj.set_random_state(11)
            fresh.set_random_state(11)
            try:
                a, b = np.asarray(obj.sample(20)), np.asarray(fresh.sample(20))
            except Exception as e:  # noqa
                a, b = f'{vc.exc_kind(e)}: {e}', None
            if not ((obj.tau, obj.theta) == before and b is not None and np.array_equal(a, b)):
                found += 1
                ctx.fail_input(f'{fam}.sample', {'history': f'fit(data0), fit(data with {bname}) -> refused, sample', 'bad_row': badrow},
                               {'before': {'tau': before[0], 'theta': before[1]}, 'after': {'tau': obj.tau, 'theta': obj.theta}},
                               'a refused re-fit leaves tau and theta as they were; the model samples like a fresh fit of data0',
                               f'{fam}.sample:refused-refit-changes-model')
                break
    # (ii-c) a returned sample belongs to the caller: drawing again (same model, another model, another family) leaves
    # an earlier sample as it was — at small and at large sizes (no shared scratch buffer handed out)
    for n_ in (5, 1500, 20000):
        fams = B.FAMS if n_ <= 1500 else ('clayton',)
        for fam in fams:
            th = 2.0 if fam != 'frank' else 4.0
            a, b = B.make(fam, th, B.tau_of(fam, th)), B.make(fam, th * 1.5, B.tau_of(fam, th * 1.5))
            a.set_random_state(3)
            b.set_random_state(4)
            checked += 1
            try:
                with np.errstate(all='ignore'):
                    first = a.sample(n_)
                    keep = np.array(first, copy=True)
                    b.sample(n_)
                    other = B.make('clayton', 1.0, B.tau_of('clayton', 1.0))
                    other.set_random_state(5)
                    other.sample(n_)
                    a.sample(n_)
            except Exception as e:  # noqa
                found += 1
                ctx.fail_input(f'{fam}.sample', {'theta': th, 'n': n_, 'history': 'a.sample(n); b.sample(n); clayton.sample(n); a.sample(n)'},
                               f'{vc.exc_kind(e)}: {e}'[:200], 'sampling works on parameterised models', f'{fam}.sample:raises')
                continue
            if not np.array_equal(np.asarray(first), keep):
                found += 1
                i = int(np.argmax(np.any(np.asarray(first) != keep, axis=1)))
                ctx.fail_input(f'{fam}.sample', {'theta': th, 'n': n_, 'history': 'x = a.sample(n); b.sample(n); clayton.sample(n); a.sample(n); look at x again'},
                               {'row': i, 'as_returned': keep[i].tolist(), 'now': np.asarray(first)[i].tolist()},
                               'a returned sample keeps its values whatever is sampled afterwards', f'{fam}.sample:earlier-sample-overwritten')
                break
    # (v) repeated calls on one seeded model: the model's own stream advances from call to call and is a function of
    # (parameters, seed, call number) only — whatever the global NumPy state is before each call
    for fam in B.FAMS:
        th = B.theta_grid(fam)[3] if fam != 'gumbel' else 2.0
        seqs = []
        try:
            for gseed in (11, 977):
                m = B.make(fam, th, B.tau_of(fam, th))
                m.set_random_state(4242)
                np.random.seed(gseed)
                calls = []
                for k in range(4):
                    calls.append(np.asarray(m.sample(6), dtype=float).copy())
                    np.random.rand(k + 1)    # the caller uses the global generator between calls
                seqs.append(calls)
        except Exception as e:  # noqa
            found += 1
            ctx.fail_input(f'{fam}.sample', {'theta': th, 'history': '4 calls of sample(6) on one seeded model'},
                           f'{vc.exc_kind(e)}: {e}'[:200], 'repeated sampling works', f'{fam}.sample:repeated-call-raises')
            continue
        checked += 1
        a, b = seqs
        same_across_globals = all(np.array_equal(x, y) for x, y in zip(a, b))
        advancing = all(not np.array_equal(a[i], a[j]) for i in range(4) for j in range(i + 1, 4))
        if not (same_across_globals and advancing):
            found += 1
            ctx.fail_input(f'{fam}.sample', {'theta': th, 'model_seed': 4242, 'global_seeds': [11, 977],
                                             'history': '4 calls of sample(6) on one seeded model, global generator used in between'},
                           {'calls_identical_to_each_other': [[bool(np.array_equal(a[i], a[j])) for j in range(4)] for i in range(4)],
                            'same_under_both_global_states': [bool(np.array_equal(x, y)) for x, y in zip(a, b)],
                            'first_rows': [c_[0].tolist() for c_ in a]},
                           'call k of a seeded model is a function of (parameters, seed, k) only and differs from the other calls',
                           f'{fam}.sample:repeated-calls-not-an-advancing-private-stream')
    # (vi) batch sizes at the edge: n = 0 gives an empty (0, 2) float array, n = 1 a (1, 2) array; and a model handed
    # over by the factory / from_dict samples exactly like the directly constructed one
    from copulas.bivariate import Bivariate
    for fam in B.FAMS:
        th = B.theta_grid(fam)[3] if fam != 'gumbel' else 2.0
        tau = B.tau_of(fam, th)
        direct = B.make(fam, th, tau)
        routes = {'direct': direct}
        try:
            f1 = Bivariate(copula_type=fam)
            f1.theta, f1.tau = th, tau
            routes['factory'] = f1
            routes['from_dict'] = Bivariate.from_dict(direct.to_dict())
        except Exception as e:  # noqa
            found += 1
            ctx.fail_input(f'{fam}.sample', {'theta': th, 'route': 'factory/from_dict'}, f'{vc.exc_kind(e)}: {e}'[:200],
                           'the factory and from_dict hand over a usable model', f'{fam}.sample:route-raises')
        outs = {}
        for name, m in routes.items():
            for n in (0, 1, 3):
                checked += 1
                try:
                    m.set_random_state(77)
                    out = np.asarray(m.sample(n))
                except Exception as e:  # noqa
                    found += 1
                    ctx.fail_input(f'{fam}.sample', {'theta': th, 'route': name, 'n': n}, f'{vc.exc_kind(e)}: {e}'[:200],
                                   'sample(n) returns an (n, 2) array for every n >= 0', f'{fam}.sample:shape')
                    continue
                if out.shape != (n, 2) or out.dtype != np.float64:
                    found += 1
                    ctx.fail_input(f'{fam}.sample', {'theta': th, 'route': name, 'n': n}, {'shape': list(out.shape), 'dtype': str(out.dtype)},
                                   'sample(n) returns an (n, 2) float64 array for every n >= 0', f'{fam}.sample:shape')
                outs[(name, n)] = out
        for name in routes:
            if name != 'direct' and ('direct', 3) in outs and (name, 3) in outs and not np.array_equal(outs[('direct', 3)], outs[(name, 3)]):
                found += 1
                ctx.fail_input(f'{fam}.sample', {'theta': th, 'route': name, 'n': 3, 'seed': 77},
                               {'direct': outs[('direct', 3)].tolist(), name: outs[(name, 3)].tolist()},
                               'a model with the same parameters and seed samples the same rows whatever route built it',
                               f'{fam}.sample:depends-on-construction-route')
    return checked, found


def search(ctx, deep):
    rng = ctx.rng('search')
    n = 20000 if deep else 4000
    delta = 1e-9
    checked, found = deterministic_oracles(ctx, rng)
    if not deep:
        ctx.support = {'oracle_checks': checked, 'failures': found, 'deep': deep, 'statistical': False}
        return
    cells = []
    for fam in B.FAMS:
        for tau in ([0.0, 0.2, 0.5, 0.8] if fam == 'gumbel' else [0.2, 0.5, 0.8] if fam != 'frank' else [-0.8, -0.3, 0.3, 0.8]):
            cells.append((fam, tau))
    # Frank next to independence: a valid non-zero theta of tiny magnitude, set directly (tau = theta/9 + O(theta^3))
    cells += [('frank', ('theta', 1e-8)), ('frank', ('theta', -5e-8))]
    for fam, tau in cells:
        if isinstance(tau, tuple):
            th, tau = tau[1], tau[1] / 9
        else:
            th = {'clayton': 2 * tau / (1 - tau), 'gumbel': 1 / (1 - tau)}.get(fam)
        if th is None:
            f = B.cls_of('frank')()
            f.tau = tau
            th = float(f.compute_theta())
        c = B.make(fam, th, tau)
        seed = rng.randrange(2 ** 31)
        c.set_random_state(seed)
        try:
            with np.errstate(all='ignore'):
                S = np.asarray(c.sample(n), dtype=float)
        except Exception as e:  # noqa
            ctx.fail_input(f'{fam}.sample', {'theta': th, 'tau': tau, 'seed': seed, 'n': n}, f'{vc.exc_kind(e)}: {e}',
                           'sample returns an (n,2) array', f'{fam}.sample:raises')
            found += 1
            continue

        def bad(kind, obs, req):
            nonlocal found
            found += 1
            ctx.fail_input(f'{fam}.sample', {'theta': th, 'tau': tau, 'seed': seed, 'n': n}, obs, req, f'{fam}.sample:{kind}')
        checked += 1
        if S.shape != (n, 2) or not np.all(np.isfinite(S)) or S.min() < 0 or S.max() > 1:
            bad('shape-or-range', [S.shape, float(np.nanmin(S)), float(np.nanmax(S))], '(n,2) finite values in [0,1]')
            continue
        band = dkw(n, delta / 8)
        for col in (0, 1):
            ks = stats.kstest(S[:, col], 'uniform').statistic
            checked += 1
            if ks > band:
                bad(f'column{col}-not-uniform', float(ks), f'KS distance to U(0,1) <= DKW band {band:.4f}')
        # Kendall tau: tau-a is a U-statistic with kernel in [-1,1]: Hoeffding with floor(n/2) independent pairs
        t = float(stats.kendalltau(S[:, 0], S[:, 1])[0])
        hb = math.sqrt(2 * math.log(2 / (delta / 8)) / (n // 2)) * 1.0
        checked += 1
        if abs(t - tau) > hb:
            bad('kendall-tau', [t, tau], f'|sample tau - model tau| <= Hoeffding band {hb:.4f}')
        # joint CDF on a grid: sup over the grid of |F_n - C| <= 2-d DKW-type band (Hoeffding + union over 81 points)
        g = np.linspace(0.1, 0.9, 9)
        pts = np.array([[a, b] for a in g for b in g])
        emp = np.array([np.mean((S[:, 0] <= a) & (S[:, 1] <= b)) for a, b in pts])
        with np.errstate(all='ignore'):
            mod = np.asarray(c.cumulative_distribution(pts), dtype=float)
        jb = math.sqrt(math.log(2 * len(pts) / (delta / 8)) / (2 * n))
        checked += 1
        if np.max(np.abs(emp - mod)) > jb:
            i = int(np.argmax(np.abs(emp - mod)))
            bad('joint-cdf', {'point': pts[i].tolist(), 'empirical': float(emp[i]), 'model': float(mod[i])},
                f'|empirical joint CDF - C| <= {jb:.4f} on a 9x9 grid')
    ctx.support = {'oracle_checks': checked, 'failures': found, 'deep': deep, 'n': n}


def replay(ctx, payload):
    before = len(ctx.failing)
    search(ctx, True)
    return any(f['class'] == payload.get('class') for f in ctx.failing[before:])
