"""C12 — Conditional sampling fixes the given columns and follows the conditional law."""
import copy
import itertools
import json
import math
import warnings

import numpy as np
import pandas as pd
from scipy import stats

import vcommon as vc

warnings.filterwarnings('ignore')

GEN_TARGETS = ('GaussCond',)
DRIVER_MAIN = 'Main/GaussCond.lean'
DRIVER_TARGETS = ['CopVerif.Driver.GaussCond']
ALWAYS_SEARCH = True
RULE = ('fitted GaussianMultivariate models with 2-6 columns (latent 2-factor normal pushed through Gaussian / '
        'Beta / Gamma / Uniform marginals, 120-400 rows, per-column distribution dict; str or int column labels '
        'whose TRAINING order is never sorted, e.g. [b, c, a], so that Index.difference sorting matters); every '
        'proper non-empty conditioning subset for d <= 4 and random ones above; values inside the training range, '
        'at its ends, far outside, and Python ints; conditions given as dict in training order, dict in '
        'reversed / shuffled key order, and pandas.Series (both orders); plus a malformed stream (empty dict, '
        'unknown key, every column conditioned).  Per case the real sample(n, conditions) is run once with '
        'recorders around np.random.multivariate_normal and _get_conditional_distribution; the driver gets the '
        'real correlation, the real score table (column x caller item), the container kind, the key order and '
        'the recorded draws.  A case is distinct by (model, ordered items, container, n) and non-trivial when it '
        'is well-formed (non-empty proper subset of the training columns).  The recorder also normalises a '
        'scalar np.random.normal(loc, scale, size) call to (mean, scale**2, draws), so an equivalent way of drawing a '
        'single column is not an alarm.  SEARCH (always run): the statement on the OUTPUT, independent of how the '
        'code draws - models of every size d = 2..5 (+ random), every all-but-one conditioning subset explicitly '
        '(exactly one column left to sample) plus all / random other subsets, dict and Series, both key orders; '
        'the normal scores Z of the unconditioned output columns are regressed on the same seed\'s '
        'RandomState(seed).standard_normal((n, m)) stream G: an exact fit Z = 1a\' + GB identifies the output law '
        'as N(a, B\'B), which must equal (S12 S22^-1 z, Schur complement) - deterministic, no statistics; where '
        'the fit is not exact (another generator) the deep mode falls back to moment bands on n = 20000.  FIT '
        'HISTORY (tie and search, quick tier too): the same GaussianMultivariate object is fitted on table A, used '
        'for conditional samples on every proper subset (dict and Series), fitted again on B (same labels, other '
        'correlation / one more column / one column fewer), optionally back to A or a third table; the tie runs the '
        'model - a function of the CURRENT correlation only - against that object; the search requires the seeded '
        'sample (bitwise) and the moments handed to the sampler (1e-12) to equal those of a FRESH object fitted once '
        'on the last table.  ILL-CONDITIONED conditioning blocks (tie and search, quick tier too): models whose '
        'first 2..d columns are near-duplicates (common component + independent noise of relative size 1e-4..1e-1) '
        'or equicorrelated (rho 0.9-0.999), the other columns loading also on one block column\'s own noise; '
        'conditioning on 2..d-1 of the block gives invertible S22 with cond 1e2..1e8 (histogram cond(S22):*); the '
        'independent float64 reference uses np.linalg.solve, tolerance 1e-10*max(1, cond/100).  OBJECT STATES and '
        'MULTI-OBJECT histories (tie and search, quick tier too): besides fitted objects, models restored with '
        'GaussianMultivariate.from_dict / Multivariate.from_dict (with and without a JSON round trip), pickled and '
        'loaded, and get_instance clones fitted on the same table; groups of 5-6 such models ALIVE AT ONCE with the '
        'same labels and different correlations are sampled alternately on the same conditioning sets - every call '
        'must match the independent Schur reference of ITS OWN correlation and the seeded output of the fitted '
        'object it was made from.  CONSTANT training columns (marginal = explicit class / default Univariate wrapper '
        '/ restored model), conditioned at the constant, above, below, with an int, alone and with other columns: '
        'the conditioned column must equal the given value')
PARTIAL = ['conditional_law_partial: that N(mu_bar, Sigma_bar) IS the conditional law of a partitioned normal is '
           'the classical theorem, not re-proved (its algebraic core - residual uncorrelated with the conditioned '
           'block, residual covariance = Schur complement - is proved); that numpy draws from N(mean, cov) is in '
           'the trusted base; support: moment bands in the thorough-tier search',
           'conditions_not_modified: statement about the model being a pure function; the dynamic check on the '
           'real object belongs to C20 (a cheap before/after comparison is also run in this search)',
           'labels_aligned: FALSE of the code as found (labels_misaligned_counterexample); proved for the '
           'as-found model only under the ordering hypothesis and in full for the repaired model',
           'series container: FALSE of the code as found (series_container_counterexample); proved for Repaired',
           'np.linalg.inv is a parameter with the hypothesis that it is the inverse; binary64 effects not covered']
ASSUMPTIONS = ['pandas: Index.difference sorts; .loc selects by label; pd.Series(dict) keeps key order; '
               'bool(Series) raises ValueError (all observed in the tie on every run)',
               'np.linalg.inv returns the inverse (tie: model Gauss-Jordan vs numpy within 1e-10*scale)',
               'np.random.multivariate_normal(mean, cov, size=n) draws n rows from N(mean, cov)',
               'real-number semantics of binary64 formulas (DESIGN 3.1)']

CLS_SERIES = 'GaussianMultivariate.sample:conditions-as-Series-raises'
CLS_ORDER = 'GaussianMultivariate.sample:conditions-order-mislabels-scores'
CLS_MOMENTS = 'GaussianMultivariate.sample:conditional-moments-wrong'
CLS_FIXED = 'GaussianMultivariate.sample:conditioned-column-not-fixed'
CLS_SCHEMA = 'GaussianMultivariate.sample:output-schema'
CLS_PSD = 'GaussianMultivariate.sample:conditional-covariance-not-symmetric-psd'
CLS_MODIFIED = 'GaussianMultivariate.sample:conditions-object-modified'
CLS_RAISES = 'GaussianMultivariate.sample:raises-on-valid-conditions'
CLS_STAT = 'GaussianMultivariate.sample:sample-moments-off-conditional-law'
CLS_HISTORY = 'GaussianMultivariate.sample:conditional-law-depends-on-fit-history'
CLS_SHARED = 'GaussianMultivariate.sample:conditional-law-depends-on-other-objects'
CLS_BACK = 'GaussianMultivariate.sample:free-column-not-finite-marginal-quantile-of-its-draw'

STR_POOL = ['b', 'c', 'a', 'B', 'a1', 'Z9', '10', '9', 'x_2', 'd', 'aa', 'C']
INT_POOL = [3, -1, 10, 2, 7, 0, 25, -8, 100, 4]
DIST_NAMES = ('gaussian', 'beta', 'gamma', 'uniform')
VARIANTS = [('caller', 'truth'), ('walked', 'notnone'), ('walked', 'truth'), ('caller', 'notnone')]
VARIANT_NAME = {('caller', 'truth'): 'AsFound', ('walked', 'notnone'): 'Repaired',
                ('walked', 'truth'): 'labels repaired only', ('caller', 'notnone'): 'truth test repaired only'}


def _classes():
    from copulas.univariate import BetaUnivariate, GammaUnivariate, GaussianUnivariate, UniformUnivariate
    from copulas.univariate import Univariate
    return {'gaussian': GaussianUnivariate, 'beta': BetaUnivariate, 'gamma': GammaUnivariate,
            'uniform': UniformUnivariate, 'default': Univariate}


# ------------------------------------------------------------------------------------------ models
def make_spec(rng, d=None, kind=None):
    d = d or rng.choice([2, 3, 3, 4, 4, 5, 6])
    kind = kind or rng.choice(['str', 'str', 'int'])
    pool = STR_POOL if kind == 'str' else INT_POOL
    while True:
        labels = rng.sample(pool, d)
        if labels != sorted(labels):
            break
    dists = [rng.choice(['gaussian', 'gaussian', 'beta', 'gamma', 'uniform']) for _ in range(d)]
    return {'seed': rng.randrange(2 ** 31), 'd': d, 'kind': kind, 'labels': labels, 'dists': dists,
            'nrows': rng.choice([120, 200, 400])}


def make_illcond_spec(rng, d=None, kind=None, structure=None, eps=None, gaussian_block=False):
    """a model whose first `block` columns (in a shuffled label order) are strongly but not perfectly
    correlated, so that conditioning on 2..d-1 of them gives an ill-conditioned but invertible S22
    (cond(S22) from ~1e2 to ~1e8): `neardup` = common component + independent noise of relative size eps
    (rho = 1/(1+eps^2), cond of a pair ~ 2/eps^2); `equi` = equicorrelated block with rho 0.9-0.999.  The
    other columns load on the common component AND on one block column's own noise, so the small eigen
    directions of S22 matter for the conditional law."""
    d = d or rng.choice([3, 3, 4, 5, 6])
    spec = make_spec(rng, d=d, kind=kind)
    structure = structure or rng.choice(['neardup', 'equi'])
    block = rng.randrange(2, d + 1) if d > 2 else 2
    if structure == 'neardup':
        corr = {'kind': 'neardup', 'block': block, 'eps': eps or 10 ** rng.uniform(-4.0, -0.9)}
    else:
        corr = {'kind': 'equi', 'block': block, 'rho': rng.choice([0.9, 0.97, 0.99, 0.995, 0.999])}
    spec['corr'] = corr
    spec['dists'] = [('gaussian' if gaussian_block or rng.random() < 0.75 else rng.choice(['uniform', 'gamma'])) if j < block
                     else rng.choice(['gaussian', 'gaussian', 'uniform', 'gamma']) for j in range(d)]
    spec['nrows'] = rng.choice([200, 400])
    return spec


ROUTES = ('from_dict', 'base_from_dict', 'json', 'pickle', 'clone_fit')


def make_const_spec(rng, d=None, how='explicit'):
    """a table with one (sometimes two) CONSTANT columns; the constant column's marginal is an explicit class,
    the default Univariate wrapper (`how='default'`), or the model is restored with from_dict."""
    d = d or rng.choice([3, 3, 4, 5])
    spec = make_spec(rng, d=d)
    spec['dists'] = [rng.choice(['gaussian', 'gaussian', 'uniform', 'gamma']) for _ in range(d)]
    js = rng.sample(range(d), 2 if d >= 4 and rng.random() < 0.3 else 1)
    spec['const'] = [[j, rng.choice([0.0, 3.5, -2.0, 1e3, 7])] for j in sorted(js)]
    for j in js:
        spec['dists'][j] = 'default' if how == 'default' else rng.choice(['gaussian', 'uniform', 'gamma', 'beta'])
    if how == 'restored':
        spec['route'] = rng.choice(['from_dict', 'base_from_dict', 'json'])
    return spec


def const_condition_sets(rng, spec, df, cap=8):
    """conditions on the constant column(s): at the constant, above, below, alone and with other columns."""
    labels = spec['labels']
    out = []
    for j, value in spec['const']:
        k = labels[j]
        others = [x for x in labels if x != k]
        for v in (float(value), float(value) + rng.choice([1.0, 5.5, 100.0]), float(value) - rng.choice([0.5, 7.25]),
                  int(value) + 2):
            out.append([(k, v)])
            if len(others) >= 2:
                extra = rng.sample(others, rng.randrange(1, len(others)))
                its = [(x, v if x == k else pick_value(rng, df[x].to_numpy(), rng.choice(['inside', 'center', 'outside'])))
                       for x in labels if x == k or x in extra]
                out.append(its)
    if len(out) > cap:
        out = out[:2] + rng.sample(out[2:], cap - 2)
    return out


def block_subsets(rng, spec, cap=None):
    """conditioning sets made of 2..d-1 of the strongly correlated columns (training order)."""
    k = spec['corr']['block']
    blk = spec['labels'][:k]
    out = [list(c) for r in range(2, min(k, spec['d'] - 1) + 1) for c in itertools.combinations(blk, r)]
    if cap and len(out) > cap:
        out = rng.sample(out, cap)
    return out


def spec_key(spec):
    return json.dumps(spec, sort_keys=True)


_MODELS = {}


def plain(spec):
    """the spec of the LAST fit, without the fit history."""
    return {k: v for k, v in spec.items() if k not in ('refit_from', 'route')}


def unrouted(spec):
    """the spec of the FITTED object a restored / pickled / cloned object was made from."""
    return {k: v for k, v in spec.items() if k != 'route'}


def make_table(spec):
    """deterministic training table of a (plain) spec."""
    d = spec['d']
    rs = np.random.RandomState(spec['seed'])
    if 'corr' in spec:
        cs, k, n = spec['corr'], spec['corr']['block'], spec['nrows']
        g = rs.randn(n)
        e = rs.randn(n, d)
        z = np.empty((n, d))
        for j in range(d):
            if j < k and cs['kind'] == 'neardup':
                z[:, j] = (g + cs['eps'] * e[:, j]) / math.sqrt(1 + cs['eps'] ** 2)
            elif j < k:
                z[:, j] = math.sqrt(cs['rho']) * g + math.sqrt(1 - cs['rho']) * e[:, j]
            else:
                a, b, c = rs.uniform(0.3, 0.8), rs.uniform(0.3, 0.8), rs.uniform(0.3, 0.8)
                z[:, j] = (a * g + b * e[:, rs.randint(k)] + c * e[:, j]) / math.sqrt(a * a + b * b + c * c)
    else:
        A = rs.randn(d, 2)
        C = A @ A.T + np.diag(rs.uniform(0.4, 1.5, d))
        s = np.sqrt(np.diag(C))
        C = C / np.outer(s, s)
        z = rs.multivariate_normal(np.zeros(d), C, size=spec['nrows'])
    u = stats.norm.cdf(z)
    data = {}
    for j, (lab, dist) in enumerate(zip(spec['labels'], spec['dists'])):
        loc, scale = rs.uniform(-5, 5), 10 ** rs.uniform(-1, 1.5)
        if dist == 'gaussian':
            x = loc + scale * z[:, j]
        elif dist == 'beta':
            x = loc + scale * stats.beta.ppf(u[:, j], rs.choice([0.8, 2.0, 5.0]), rs.choice([1.5, 3.0]))
        elif dist == 'gamma':
            x = scale * stats.gamma.ppf(u[:, j], rs.choice([1.5, 3.0, 8.0]))
        else:
            x = loc + scale * u[:, j]
        data[lab] = x
    for j, value in spec.get('const', []):
        data[spec['labels'][j]] = np.full(spec['nrows'], float(value))
    return pd.DataFrame(data)


def all_subsets(labels):
    return [list(c) for r in range(1, len(labels)) for c in itertools.combinations(labels, r)]


def build(spec):
    """deterministic table + fitted model from a spec.  With `spec['refit_from'] = [spec_1, ..., spec_k]` it
    is ONE object with a history: fit(table_1), conditional samples on every proper non-empty subset of its
    columns (dict and Series), ..., fit(table_k), conditional samples, and finally fit(table of spec)."""
    key = spec_key(spec)
    if key in _MODELS:
        return _MODELS[key]
    from copulas.multivariate import GaussianMultivariate
    if 'route' in spec:
        # another OBJECT STATE carrying the same fit: restored from to_dict() (both from_dict routes, with and
        # without a JSON round trip), pickled and loaded, or a get_instance clone fitted on the same table
        import pickle
        from copulas.multivariate import Multivariate
        from copulas.utils import get_instance
        fitted, df = build(unrouted(spec))
        route = spec['route']
        state = np.random.get_state()
        try:
            if route == 'from_dict':
                model = GaussianMultivariate.from_dict(fitted.to_dict())
            elif route == 'base_from_dict':
                model = Multivariate.from_dict(fitted.to_dict())
            elif route == 'json':
                model = Multivariate.from_dict(json.loads(json.dumps(fitted.to_dict())))
            elif route == 'pickle':
                model = pickle.loads(pickle.dumps(fitted))
            elif route == 'clone_fit':
                model = get_instance(fitted)
                np.random.seed(spec['seed'] % (2 ** 32))
                model.fit(df)
            else:
                raise ValueError(route)
        finally:
            np.random.set_state(state)
        _MODELS[key] = (model, df)
        return model, df
    cls = _classes()
    history = list(spec.get('refit_from', []))
    dist = {}
    for sp in history + [spec]:
        for lab, dn in zip(sp['labels'], sp['dists']):
            dist[lab] = cls[dn]
    df = make_table(plain(spec))
    state = np.random.get_state()
    try:
        np.random.seed(spec['seed'] % (2 ** 32))
        model = GaussianMultivariate(distribution=dist)
        for sp in history:
            tab = make_table(plain(sp))
            model.fit(tab)
            for i, sub in enumerate(all_subsets(sp['labels'])):
                cond = {k: float(np.quantile(tab[k].to_numpy(), 0.35 + 0.05 * (i % 7))) for k in sub}
                for c in (cond, pd.Series(cond)) if i % 3 == 0 else (cond,):
                    try:
                        model.sample(2, c)
                    except Exception:  # noqa  (the per-call oracles report failures; here only the history matters)
                        pass
        model.fit(df)
    finally:
        np.random.set_state(state)
    _MODELS[key] = (model, df)
    return model, df


def derive_spec(rng, spec, labels=None):
    """another table for (mostly) the same labels: different correlation, rows, marginal parameters; shared
    labels keep their distribution class so that one `distribution` dict serves the whole history."""
    labels = list(spec['labels']) if labels is None else list(labels)
    old = dict(zip(spec['labels'], spec['dists']))
    dists = [old.get(lab) or rng.choice(['gaussian', 'gaussian', 'uniform']) for lab in labels]
    return {'seed': rng.randrange(2 ** 31), 'd': len(labels), 'kind': spec['kind'], 'labels': labels, 'dists': dists,
            'nrows': rng.choice([120, 200, 400])}


def pick_value(rng, col, mode):
    lo, hi = float(np.min(col)), float(np.max(col))
    span = (hi - lo) or 1.0
    if mode == 'inside':
        return float(np.quantile(col, rng.uniform(0.03, 0.97)))
    if mode == 'center':
        return float(np.quantile(col, rng.uniform(0.3, 0.7)))
    if mode == 'edge':
        return rng.choice([lo, hi])
    if mode == 'outside':
        return hi + span * rng.uniform(0.2, 3.0) if rng.random() < 0.5 else lo - span * rng.uniform(0.2, 3.0)
    if mode == 'int':
        return int(round(float(np.quantile(col, rng.uniform(0.1, 0.9)))))
    raise ValueError(mode)


def subsets(rng, labels, extra=4):
    d = len(labels)
    if d <= 4:
        out = [list(c) for r in range(1, d) for c in itertools.combinations(labels, r)]
    else:
        out = []
        seen = set()
        while len(out) < 2 * d + extra:
            chosen = set(rng.sample(labels, rng.randrange(1, d)))
            c = tuple(x for x in labels if x in chosen)
            if c not in seen:
                seen.add(c)
                out.append(list(c))
    return out  # each in TRAINING order


def container_of(items, container):
    d = dict(items)
    return pd.Series(d) if container == 'series' else d


# ------------------------------------------------------------------------------------------ real run
class Recorder:
    def __init__(self):
        self.mvn = []       # (mean, cov, size, result) of every recorded draw call
        self.how = []       # which numpy entry point produced it
        self.other = []     # draw calls that could not be normalised
        self.gcd = []       # (index list, values, (mu, sigma, columns))


def real_run(model, conditions, n, seed):
    """sample(n, conditions) on the real code with recorders; the global RNG state is restored.
    Recorded as "the draws": calls of np.random.multivariate_normal and of np.random.normal with scalar
    loc / scale (normalised to mean vector, 1x1 covariance scale**2, number of rows, (rows, 1) table), so
    that a different-but-equivalent way of drawing a single column is not an alarm."""
    rec = Recorder()
    orig_mvn = np.random.multivariate_normal
    orig_normal = np.random.normal
    cls_gcd = type(model)._get_conditional_distribution
    recreate = []

    def mvn(mean, cov, size=None, *a, **kw):
        r = orig_mvn(mean, cov, size, *a, **kw)
        rec.mvn.append((np.array(mean, dtype=float, copy=True), np.array(cov, dtype=float, copy=True), size,
                        np.array(r, copy=True)))
        rec.how.append('multivariate_normal')
        recreate.append(lambda: orig_mvn(mean, cov, size, *a, **kw))
        return r

    def nrm(loc=0.0, scale=1.0, size=None):
        r = orig_normal(loc, scale, size)
        if np.ndim(loc) == 0 and np.ndim(scale) == 0 and np.ndim(r) >= 1:
            rec.mvn.append((np.array([float(loc)]), np.array([[float(scale) ** 2]]), int(np.size(r)),
                            np.array(r, dtype=float).reshape(-1, 1)))
            rec.how.append('normal')
            recreate.append(lambda: np.asarray(orig_normal(loc, scale, size), dtype=float).reshape(-1, 1))
        else:
            rec.other.append('np.random.normal with non-scalar parameters')
        return r

    def gcd(nc):
        res = cls_gcd(model, nc)
        rec.gcd.append((list(nc.index), np.asarray(nc.to_numpy(), dtype=float).copy(),
                        (np.asarray(res[0], dtype=float).copy(), np.asarray(res[1], dtype=float).copy(),
                         list(res[2]))))
        return res

    state = np.random.get_state()
    np.random.multivariate_normal = mvn
    np.random.normal = nrm
    model._get_conditional_distribution = gcd
    try:
        np.random.seed(seed)
        try:
            out = model.sample(n, conditions)
            res = ('ok', out)
        except Exception as e:  # noqa
            res = ('err', vc.exc_kind(e), f'{type(e).__name__}: {e}'[:160])
        # cross-check the recorded draws by re-creating them from the same seed
        rec.replayed = None
        if rec.mvn:
            np.random.seed(seed)
            rec.replayed = bool(np.array_equal(recreate[0](), rec.mvn[0][3]))
    finally:
        np.random.multivariate_normal = orig_mvn
        np.random.normal = orig_normal
        try:
            del model._get_conditional_distribution
        except AttributeError:
            pass
        np.random.set_state(state)
    return res, rec


def score_table(model, items):
    """real Phi^-1(clip(F_i(x_j))) for every training column i and caller item j, computed exactly as
    `_transform_to_normal` does (same one-row frame, same numpy calls), without its column walk."""
    from copulas.utils import EPSILON
    if not items:
        return []
    frame = pd.Series(dict(items)).to_frame().T
    tab = []
    for uni in model.univariates:
        row = []
        for key, _ in items:
            col = frame[key]
            with np.errstate(all='ignore'):
                row.append(float(stats.norm.ppf(np.asarray(uni.cdf(col.to_numpy())).clip(EPSILON, 1 - EPSILON))[0]))
        tab.append(row)
    return tab


def tok(lab):
    return str(lab)


def request(spec, model, items, container, variant, tab, n, draws):
    d = spec['d']
    sig = model.correlation.to_numpy()
    ws = ['cond', spec['kind'], variant[0], variant[1], container, str(d)]
    ws += [tok(x) for x in spec['labels']]
    ws += [vc.f2h(x) for x in sig.reshape(-1)]
    ws += [str(len(items))] + [tok(k) for k, _ in items] + [vc.f2h(float(v)) for _, v in items]
    ws += [vc.f2h(x) for row in tab for x in row]
    if draws is None:
        ws += ['0', '0']
    else:
        ws += [str(draws.shape[0]), str(draws.shape[1])] + [vc.f2h(x) for x in draws.reshape(-1)]
    return ' '.join(ws)


def parse_reply(r, kind):
    ws = r.split()
    if not ws:
        return ('bad', r)
    if ws[0] == 'err':
        return ('err', ws[1] if len(ws) > 1 else '')
    if ws[0] != 'ok':
        return ('bad', r[:120])
    lab = (lambda s: s) if kind == 'str' else int
    i = 1
    out = {}
    try:
        assert ws[i] == 'nc'
        k = int(ws[i + 1])
        i += 2
        out['nc_labels'] = [lab(x) for x in ws[i:i + k]]
        i += k
        out['nc_scores'] = [vc.h2f(x) for x in ws[i:i + k]]
        i += k
        assert ws[i] == 'c1'
        m = int(ws[i + 1])
        i += 2
        out['c1'] = [lab(x) for x in ws[i:i + m]]
        i += m
        assert ws[i] == 'mean'
        i += 1
        out['mean'] = np.array([vc.h2f(x) for x in ws[i:i + m]])
        i += m
        assert ws[i] == 'cov'
        i += 1
        out['cov'] = np.array([vc.h2f(x) for x in ws[i:i + m * m]]).reshape(m, m)
        i += m * m
        assert ws[i] == 'out'
        nd = int(ws[i + 1])
        i += 2
        cols = []
        for _ in range(nd):
            name, tag, ln = lab(ws[i]), ws[i + 1], int(ws[i + 2])
            i += 3
            cols.append((name, tag, np.array([vc.h2f(x) for x in ws[i:i + ln]])))
            i += ln
        out['out'] = cols
        assert i == len(ws)
    except (AssertionError, ValueError, IndexError):
        return ('bad', r[:200])
    return ('ok', out)


def close_arr(a, b, tol):
    a, b = np.asarray(a, dtype=float), np.asarray(b, dtype=float)
    if a.shape != b.shape:
        return False
    if a.size == 0:
        return True
    return bool(np.all(np.abs(a - b) <= tol * np.maximum(1.0, np.maximum(np.abs(a), np.abs(b)))))


def compare(spec, model, items, n, res, rec, reply):
    """first disagreement between the real run and one model reply, as (aspect, detail) or None."""
    if reply[0] == 'bad':
        return ('protocol', reply[1])
    if res[0] == 'err':
        if reply[0] == 'err' and reply[1] == res[1]:
            return None
        return ('errors', {'real': res[1:], 'model': reply[:2] if reply[0] == 'err' else 'ok'})
    if reply[0] == 'err':
        return ('errors', {'real': 'ok', 'model': reply[1]})
    mo = reply[1]
    out = res[1]
    # A. normal_conditions as a label -> score map
    if len(rec.gcd) != 1:
        return ('normal-conditions', f'{len(rec.gcd)} _get_conditional_distribution calls')
    if len(rec.mvn) != 1 or rec.other:
        return ('conditional-distribution', f'{len(rec.mvn)} recorded draw calls (np.random.multivariate_normal / '
                f'np.random.normal) {rec.how} {rec.other}')
    idx, vals, (mu, sigma, c1) = rec.gcd[0]
    real_map = dict(zip(idx, vals))
    model_map = dict(zip(mo['nc_labels'], mo['nc_scores']))
    if set(real_map) != set(model_map) or len(idx) != len(set(idx)) or \
            any(not abs(real_map[k] - model_map[k]) <= 1e-12 * max(1.0, abs(real_map[k])) for k in real_map):
        return ('normal-conditions', {'real': {str(k): v for k, v in real_map.items()},
                                      'model': {str(k): v for k, v in model_map.items()}})
    # B. conditional distribution, as handed to np.random.multivariate_normal
    mean, cov, size, draws = rec.mvn[0]
    # the order of the draws' labels is free as long as every later lookup is by label (DESIGN 3.3: "under
    # some assignment of the recorded arrays to the model's roles"): compare up to that permutation
    if sorted(c1) != sorted(mo['c1']) or len(set(c1)) != len(c1):
        return ('conditional-distribution', {'columns1 real': [str(x) for x in c1], 'model': [str(x) for x in mo['c1']]})
    perm = [list(c1).index(x) for x in mo['c1']]
    S = model.correlation
    s22 = S.loc[idx, idx].to_numpy()
    cond22 = float(np.linalg.cond(s22))
    zmax = max(1.0, float(np.max(np.abs(vals))))
    tol = 1e-10 * max(1.0, cond22 / 1e3)
    if mean.shape != (len(c1),) or cov.shape != (len(c1), len(c1)) or mu.shape != mean.shape or sigma.shape != cov.shape:
        return ('conditional-distribution', f'shapes mean {mean.shape} cov {cov.shape} for {len(c1)} columns')
    mean, mu, cov, sigma = mean[perm], mu[perm], cov[np.ix_(perm, perm)], sigma[np.ix_(perm, perm)]
    if not (close_arr(mean, mo['mean'], tol * zmax) and close_arr(mu, mo['mean'], tol * zmax)):
        return ('conditional-distribution', {'mean handed to mvn': mean.tolist(), 'returned': mu.tolist(),
                                             'model': mo['mean'].tolist(), 'tol': tol * zmax})
    if not (close_arr(cov, mo['cov'], tol) and close_arr(sigma, mo['cov'], tol)):
        return ('conditional-distribution', {'cov handed to mvn': cov.tolist(), 'model': mo['cov'].tolist(), 'tol': tol})
    if size != n or draws.shape != (n, len(c1)) or rec.replayed is not True:
        return ('conditional-distribution', f'mvn size={size} draws {draws.shape} replayed={rec.replayed}')
    # C. the plan applied to the recorded draws with the real fitted univariates
    if not isinstance(out, pd.DataFrame) or list(out.columns) != [c[0] for c in mo['out']] or len(out) != n:
        return ('sample-plan', {'real columns': [str(x) for x in getattr(out, 'columns', [])], 'rows': len(out),
                                'model': [str(c[0]) for c in mo['out']]})
    given = dict(items)
    for (name, tag, pre), uni in zip(mo['out'], model.univariates):
        real_col = out[name].to_numpy()
        if tag == 'F':
            if not (len(pre) == n and np.all(pre == float(given[name])) and np.all(real_col == given[name])):
                return ('sample-plan', {'column': str(name), 'plan': 'fixed', 'given': given.get(name),
                                        'real': real_col[:4].tolist(), 'model': pre[:4].tolist()})
        else:
            with np.errstate(all='ignore'):
                exp = np.asarray(uni.percent_point(stats.norm.cdf(np.array(pre, dtype=float))), dtype=float)
            rc = np.asarray(real_col, dtype=float)
            same = exp.shape == rc.shape and np.all((exp == rc) | ((exp != exp) & (rc != rc)))
            if not same:
                return ('sample-plan', {'column': str(name), 'plan': 'ppf(Phi(draw by label))',
                                        'real': rc[:4].tolist(), 'expected': exp[:4].tolist()})
    return None


# ------------------------------------------------------------------------------------------ cases
def gen_cases(ctx):
    """list of (spec, items(ordered), container, n, tags)."""
    rng = ctx.rng('cases')
    quick = ctx.tier == 'quick'
    n_models = 8 if quick else 100
    specs = [make_spec(rng, d=3, kind='str'), make_spec(rng, d=2, kind='int'), make_spec(rng, d=4, kind='str')]
    specs += [make_spec(rng) for _ in range(max(0, n_models - len(specs)))]
    # objects with a fit HISTORY (the model is a function of the CURRENT fit only): fit(A), conditional samples
    # on every subset, fit(B) with the same labels; and A -> B -> back to A
    hist = []
    for spec in specs[:3] + (specs[3:9] if not quick else []):
        other = derive_spec(rng, spec)
        hist.append(dict(other, refit_from=[spec]))
        hist.append(dict(spec, refit_from=[spec, other]))
    # ill-conditioned but invertible conditioning blocks (cond(S22) ~ 1e2 .. 1e8)
    ill = [make_illcond_spec(rng, d=3, structure='neardup', eps=10 ** rng.uniform(-4.0, -3.0), gaussian_block=True),
           make_illcond_spec(rng, d=4, structure='equi'), make_illcond_spec(rng, d=6, structure='equi')]
    ill += [make_illcond_spec(rng) for _ in range(1 if quick else 20)]
    # tables with CONSTANT columns: explicit marginal class, default Univariate wrapper, restored model
    const = [make_const_spec(rng, d=3, how='explicit'), make_const_spec(rng, d=3, how='default'),
             make_const_spec(rng, d=4, how='restored')]
    const += [make_const_spec(rng, how=rng.choice(['explicit', 'default', 'restored'])) for _ in range(0 if quick else 12)]
    specs = specs[:3] + hist + ill + const + specs[3:]

    def cases_for(si, spec, forced_subs=None):
        out = []
        model, df = build(spec)
        labels = spec['labels']
        if forced_subs is not None:
            subs = forced_subs
        else:
            subs = subsets(rng, labels)
            if quick and len(subs) > 8 and si >= 3:
                subs = rng.sample(subs, 8)
            if 'corr' in spec:
                blk = block_subsets(rng, spec, cap=6 if quick else 14)
                subs = blk + [x for x in subs if x not in blk][:4]
            if 'const' in spec:
                subs = subs[:4]
                for it in const_condition_sets(rng, spec, df, cap=8 if quick else 14):
                    for container in ('dict', 'series') if rng.random() < 0.4 else ('dict',):
                        out.append((spec, it, container, rng.choice([1, 3]),
                                    {'order': 'training', 'mode': 'constant-column', 'wellformed': True}))
        for sub in subs:
            mode = rng.choice(['inside', 'inside', 'outside', 'edge', 'int', 'center'])
            items = [(k, pick_value(rng, df[k].to_numpy(), mode if rng.random() < 0.8 else 'inside')) for k in sub]
            variants = [('training', 'dict')]
            if len(sub) >= 2:
                variants.append((rng.choice(['reversed', 'shuffled']), 'dict'))
            variants.append((rng.choice(['training', 'training', 'shuffled']) if len(sub) >= 2 else 'training',
                             'series'))
            for order, container in variants:
                it = list(items)
                if order == 'reversed':
                    it = it[::-1]
                elif order == 'shuffled':
                    while it == items:
                        rng.shuffle(it)
                n = rng.choice([1, 2, 5, 8])
                out.append((spec, it, container, n, {'order': order, 'mode': mode, 'wellformed': True}))
        if forced_subs is not None:
            return out
        # malformed stream
        k0 = labels[0]
        v0 = pick_value(rng, df[k0].to_numpy(), 'inside')
        unknown = 'zz_unknown' if spec['kind'] == 'str' else 987654
        mal = [([], 'dict', 'empty'), ([(unknown, 1.0)], 'dict', 'unknown-only'),
               ([(k0, v0), (unknown, 2.0)], 'dict', 'unknown-extra'),
               ([(k, pick_value(rng, df[k].to_numpy(), 'inside')) for k in labels], 'dict', 'all-columns')]
        for it, container, what in (mal if si < 4 or rng.random() < 0.3 else mal[:1]):
            out.append((spec, it, container, 3, {'order': 'n/a', 'mode': what, 'wellformed': False}))
        return out

    cases = []
    for si, spec in enumerate(specs):
        cases += cases_for(si, spec)
    # OBJECT STATES, two or more models ALIVE AT ONCE with the same labels and different correlations, sampled
    # alternately on the same conditioning sets: restored (from_dict / Multivariate.from_dict / JSON), pickled,
    # get_instance clone fitted on the same table
    groups = []
    for base in specs[:2] + ([specs[2]] + [make_spec(rng, d=rng.choice([3, 4])) for _ in range(5)] if not quick else []):
        other = derive_spec(rng, base)
        third = derive_spec(rng, base)
        r = list(ROUTES)
        rng.shuffle(r)
        groups.append([dict(base, route=r[0]), dict(other, route=r[1]), dict(third, route=r[2]),
                       dict(base, route=r[3]), dict(other, route=r[4])])
    groups[0][0]['route'], groups[0][1]['route'] = 'from_dict', 'base_from_dict'
    for group in groups:
        labels = group[0]['labels']
        subs = all_subsets(labels) if len(labels) <= 3 else rng.sample(all_subsets(labels), 6)
        per = [cases_for(99, g, forced_subs=subs) for g in group]
        for tup in itertools.zip_longest(*per):
            cases += [c for c in tup if c is not None]
    return cases


def run(ctx, lean):
    names = ['corr:variant', 'corr:errors', 'corr:normal-conditions', 'corr:conditional-distribution',
             'corr:sample-plan', 'tv:GaussCond']
    if lean is None:
        for nm in names:
            ctx.ob(nm, False, 'tie', 'driver unavailable')
        return
    rng = ctx.rng('run')
    cases = gen_cases(ctx)
    obs = []
    for spec, items, container, n, tags in cases:
        model, df = build(spec)
        cond = container_of(items, container)
        seed = rng.randrange(2 ** 32)
        if 'route' in spec:
            _ROUTED_LOG.append((spec, list(items), container, n, seed))
        res, rec = real_run(model, cond, n, seed)
        tab = score_table(model, items)
        draws = rec.mvn[0][3] if rec.mvn else None
        if draws is not None and (draws.ndim != 2 or not rec.gcd or draws.shape[1] != len(rec.gcd[0][2][2])):
            draws = None
        if draws is not None:
            # hand the recorded draws to the model under ITS labelling of the draw columns (sorted labels)
            c1 = list(rec.gcd[0][2][2])
            draws = draws[:, [c1.index(x) for x in sorted(c1)]]
            ctx.count('columns1-order:' + ('sorted' if c1 == sorted(c1) else 'not-sorted'))
        obs.append((spec, model, items, container, n, tags, res, rec, tab, draws))
        key = (spec_key(spec), tuple((str(k), float(v)) for k, v in items), container, n)
        ctx.case(key, nontrivial=tags['wellformed'])
        ctx.count(f'container:{container}')
        ctx.count(f'order:{tags["order"]}')
        ctx.count(f'values:{tags["mode"]}')
        ctx.count(f'd:{spec["d"]}')
        if tags['wellformed'] and len(items) >= 2:
            ks = [k for k, _ in items]
            c22 = float(np.linalg.cond(model.correlation.loc[ks, ks].to_numpy()))
            ctx.count('cond(S22):' + ('<1e2' if c22 < 1e2 else '1e%d..' % int(math.floor(math.log10(c22)))))
        ctx.count(f'labels:{spec["kind"]}')
        ctx.count('fit-history:' + (f'{len(spec["refit_from"])}-earlier-fits' if 'refit_from' in spec else 'single-fit'))
        ctx.count('object-state:' + spec.get('route', 'fitted'))
        if 'const' in spec:
            cj = {spec['labels'][j]: v for j, v in spec['const']}
            hit = [k for k, _ in items if k in cj]
            ctx.count('constant-column:' + ('not conditioned' if not hit else
                      'conditioned at the constant' if all(float(v) == float(cj[k]) for k, v in items if k in cj)
                      else 'conditioned at another value') + ':' +
                      ('default-wrapper' if 'default' in spec['dists'] else 'explicit-class') +
                      (':restored' if 'route' in spec else ''))
        ctx.count('real:' + (res[0] if res[0] == 'ok' else 'err ' + res[1]))
        for h in rec.how:
            ctx.count('draws-by:' + h)
        if tags['wellformed']:
            ctx.count(f'cond-size:{len(items)}')
    # which variant does the real code refine?
    results = {}
    for variant in VARIANTS:
        first_bad, passed = None, 0
        for (spec, model, items, container, n, tags, res, rec, tab, draws) in obs:
            reply = parse_reply(lean.ask(request(spec, model, items, container, variant, tab, n, draws)), spec['kind'])
            bad = compare(spec, model, items, n, res, rec, reply)
            if bad is not None and not tags['wellformed'] and res[0] == 'err':
                # outside the property's quantifier (empty / unknown key / every column): the call being
                # refused, with whatever exception, is accepted for every variant
                bad = None
                if variant == VARIANTS[0]:
                    ctx.count('malformed:refused-differently-from-model')
            if bad is not None:
                first_bad = (bad, describe(spec, items, container, n, tags))
                break
            passed += 1
        results[variant] = (passed, first_bad)
    alive = [v for v in VARIANTS if results[v][1] is None]
    # no survivor: report the first disagreement of the variant that agreed longest
    chosen = alive[0] if alive else max(VARIANTS, key=lambda v: results[v][0])
    for v in VARIANTS:
        ctx.notes.append(f'variant {VARIANT_NAME[v]} {v}: ' + ('refined by the real code on all cases' if results[v][1] is None
                         else f'first disagreement after {results[v][0]} cases: {results[v][1][0][0]}'))
    ctx.count('variant-refined:' + (VARIANT_NAME[chosen] if alive else 'none'))
    discriminating = sum(1 for v in VARIANTS if results[v][1] is not None)
    ctx.ob('corr:variant', bool(alive) and discriminating >= 3, 'tie',
           f'real code refines {VARIANT_NAME[chosen]}' if alive and discriminating >= 3 else
           ('generator did not discriminate the variants' if alive else
            f'no variant of the model agrees with the real code on all cases; closest {VARIANT_NAME[chosen]}'))
    bad, where = results[chosen][1] if results[chosen][1] else (None, None)
    for aspect in ['errors', 'normal-conditions', 'conditional-distribution', 'sample-plan']:
        hit = bad is not None and (bad[0] == aspect or (bad[0] == 'protocol' and aspect == 'errors'))
        ctx.ob(f'corr:{aspect}', not hit, 'tie',
               json.dumps({'case': where, 'diff': vc.jsonable(bad[1])}, default=str)[:580] if hit else
               f'{results[chosen][0]} cases vs {VARIANT_NAME[chosen]}')
    # translation validation (T): the same requests answered from the definitions GENERATED from the source
    # (lean/CopVerif/Gen/GaussCond.lean via tools/gen_gausscond.py) - real code vs generated model, same inputs
    gen_bad, gen_pass = None, 0
    for (spec, model, items, container, n, tags, res, rec, tab, draws) in obs:
        reply = parse_reply(lean.ask(request(spec, model, items, container, ('gen', 'gen'), tab, n, draws)), spec['kind'])
        bad = compare(spec, model, items, n, res, rec, reply)
        if bad is not None and not tags['wellformed'] and res[0] == 'err':
            bad = None
        if bad is not None:
            gen_bad = (bad, describe(spec, items, container, n, tags))
            break
        gen_pass += 1
    ctx.ob('tv:GaussCond', gen_bad is None, 'tie',
           f'{gen_pass} cases: real code = generated definitions' if gen_bad is None else
           json.dumps({'case': gen_bad[1], 'aspect': gen_bad[0][0], 'diff': vc.jsonable(gen_bad[0][1])}, default=str)[:580])
    for (spec, model, items, container, n, tags, res, rec, tab, draws) in obs[:3]:
        ctx.sample({'columns': [str(x) for x in spec['labels']], 'dists': spec['dists'],
                    'conditions': [[str(k), v] for k, v in items], 'container': container, 'n': n,
                    'real': res[0] if res[0] == 'ok' else list(res[1:]),
                    'columns1': [str(x) for x in rec.gcd[0][2][2]] if rec.gcd else None,
                    'mean': rec.mvn[0][0].tolist() if rec.mvn else None})


def describe(spec, items, container, n, tags):
    return {'columns': [str(x) for x in spec['labels']], 'dists': spec['dists'], 'seed': spec['seed'],
            'earlier fits of the same object (table seeds)': [sp['seed'] for sp in spec.get('refit_from', [])],
            'object state': spec.get('route', 'fitted'), 'constant columns': spec.get('const', []),
            'conditions': [[str(k), v] for k, v in items], 'container': container, 'n': n, 'order': tags['order']}


# ------------------------------------------------------------------------------------------ oracle on the real code
def schur(model, items):
    """Schur mean / covariance from CORRECTLY labelled scores, computed independently with numpy."""
    from copulas.utils import EPSILON
    cols = list(model.columns)
    keys = [k for k, _ in items]
    c2 = [c for c in cols if c in keys]
    c1 = sorted(c for c in cols if c not in keys)
    given = dict(items)
    z = []
    for c in c2:
        uni = model.univariates[cols.index(c)]
        with np.errstate(all='ignore'):
            z.append(float(stats.norm.ppf(np.clip(uni.cdf(np.array([float(given[c])])), EPSILON, 1 - EPSILON))[0]))
    z = np.array(z)
    S = model.correlation
    s11 = S.loc[c1, c1].to_numpy()
    s12 = S.loc[c1, c2].to_numpy()
    s22 = S.loc[c2, c2].to_numpy()
    mu = s12 @ np.linalg.solve(s22, z)
    sig = s11 - s12 @ np.linalg.solve(s22, s12.T)
    return c1, c2, z, mu, sig, float(np.linalg.cond(s22))


def mean_class(model, items, c1, mean_obs, in_order, default):
    """class key of a wrong conditional mean: the order-mislabelling defect only if the observed mean IS the
    Schur mean for scores attached to the caller's key order (what the code as found did)."""
    if in_order:
        return default
    try:
        _, c2, z, _, _, _ = schur(model, items)
        keys = [k for k, _ in items if k in c2]
        S = model.correlation
        wrong = S.loc[c1, keys].to_numpy() @ np.linalg.solve(S.loc[keys, keys].to_numpy(), z)
        if np.shape(mean_obs) == wrong.shape and close_arr(mean_obs, wrong, 1e-6 * max(1.0, float(np.max(np.abs(z))))):
            return CLS_ORDER
    except Exception:  # noqa
        pass
    return default


def payload(spec, items, container, n, seed):
    return {'model': spec, 'conditions': [[k, v] for k, v in items], 'container': container, 'n': n, 'seed': seed}


def same_object(before, after):
    if isinstance(before, pd.Series):
        return isinstance(after, pd.Series) and list(before.index) == list(after.index) and \
            before.dtype == after.dtype and np.array_equal(before.to_numpy(), after.to_numpy())
    return type(before) is type(after) and list(before.items()) == list(after.items())


_ROUTED_LOG = []     # every call made in this process on a restored / pickled / cloned object, in order


class _Probe:
    """a context that only collects failures (to ask whether the fitted twin fails the same way)."""

    def __init__(self):
        self.failing = []

    def fail_input(self, entry_point, inp, observed, required, cls=None):
        self.failing.append({'class': cls or entry_point})

    def count(self, key, n=1):
        pass


def log_payload():
    models, calls = [], []
    for spec, items, container, n, seed in _ROUTED_LOG:
        key = spec_key(spec)
        idx = next((i for i, m in enumerate(models) if spec_key(m) == key), None)
        if idx is None:
            models.append(spec)
            idx = len(models) - 1
        calls.append([idx, [list(x) for x in items], container, n, seed])
    return {'models': models, 'calls': calls,
            'note': 'every call made in the process on restored / pickled / cloned objects, in order; the last fails'}


def oracle_case(ctx, spec, items, container, n, seed, in_order):
    """the property's statement on one real call; returns number of checks.  A failure on a restored / pickled /
    cloned object that the FITTED object it was made from does not show is a dependence on other objects in
    the process (it cannot be replayed from this call alone): it is reported under CLS_SHARED, with the
    minimal sequence found by `shared_sequence` or else with the whole call log."""
    if 'route' not in spec:
        return _oracle_case_impl(ctx, spec, items, container, n, seed, in_order)
    before = len(ctx.failing)
    _ROUTED_LOG.append((spec, list(items), container, n, seed))
    checks = _oracle_case_impl(ctx, spec, items, container, n, seed, in_order)
    new = ctx.failing[before:]
    if new:
        probe = _Probe()
        _oracle_case_impl(probe, unrouted(spec), items, container, n, seed, in_order)
        twin_classes = {f['class'] for f in probe.failing}
        if not {f['class'] for f in new} <= twin_classes:
            del ctx.failing[before:]
            ctx.count('search:restored-object-deviates-from-its-fitted-twin')
            if not any(f['class'] == CLS_SHARED for f in ctx.failing):
                ctx.fail_input('GaussianMultivariate.sample', log_payload(),
                               {'object state': spec['route'], 'failures not shown by the fitted twin': [
                                   {'class': f['class'], 'observed': f['observed']} for f in new]},
                               'a restored / pickled / cloned object behaves as the fitted object it was made from',
                               CLS_SHARED)
    return checks


def _oracle_case_impl(ctx, spec, items, container, n, seed, in_order):
    """the property's statement on one real call; returns number of checks."""
    model, df = build(spec)
    cond = container_of(items, container)
    before = copy.deepcopy(cond)
    res, rec = real_run(model, cond, n, seed)
    inp = payload(spec, items, container, n, seed)
    ep = 'GaussianMultivariate.sample'
    if not same_object(before, cond):
        ctx.fail_input(ep, inp, repr(cond), "the caller's conditions object is unchanged", CLS_MODIFIED)
    if res[0] == 'err':
        if container == 'series':
            ctx.fail_input(ep, inp, res[2], 'conditions may be given as a pandas Series', CLS_SERIES)
        else:
            ctx.fail_input(ep, inp, res[2], 'n rows are returned for a non-empty proper subset of columns', CLS_RAISES)
        if not rec.mvn:
            return 2
    checks = 2
    out = res[1] if res[0] == 'ok' else None
    if out is not None:
        checks += 2
        if not (isinstance(out, pd.DataFrame) and list(out.columns) == list(spec['labels']) and len(out) == n):
            ctx.fail_input(ep, inp, {'columns': [str(c) for c in getattr(out, 'columns', [])], 'rows': len(out)},
                           'n rows, all training columns in training order', CLS_SCHEMA)
        else:
            for k, v in items:
                if not np.all(out[k].to_numpy() == v):
                    ctx.fail_input(ep, inp, {'column': str(k), 'values': out[k].to_numpy()[:5].tolist()},
                                   f'conditioned column {k!r} equals the given value {v!r} in every row', CLS_FIXED)
                    break
            checks += backtransform_check(ctx, ep, inp, model, out, rec, items)
    # the law handed to the sampler (when a draw call was recorded) / returned by
    # _get_conditional_distribution vs the Schur complement from correctly labelled scores
    c1, c2, z, mu, sig, cond22 = schur(model, items)
    if cond22 > 1e8:
        ctx.count('search:skipped-ill-conditioned')
        return checks
    tol = 1e-10 * max(1.0, cond22 / 1e2)     # ~ 4.5e3 * cond(S22) * eps; observed on the unchanged code: ~0.2 * cond * eps
    zmax = max(1.0, float(np.max(np.abs(z))))
    cols1 = rec.gcd[0][2][2] if rec.gcd else None
    lab = list(cols1) if cols1 is not None and sorted(cols1) == c1 else c1
    perm = [lab.index(c) for c in c1]
    seen = []
    if rec.mvn:
        seen.append(('handed to np.random.' + rec.how[0], rec.mvn[0][0], rec.mvn[0][1]))
    if rec.gcd:
        seen.append(('returned by _get_conditional_distribution', rec.gcd[0][2][0], rec.gcd[0][2][1]))
    for what, mean, cov in seen:
        checks += 3
        ok_mean = mean.shape == mu.shape and close_arr(mean[perm], mu, tol * zmax)
        ok_cov = cov.shape == sig.shape and close_arr(cov[np.ix_(perm, perm)], sig, tol)
        if not ok_mean:
            ctx.fail_input(ep, inp, {'mean ' + what: mean.tolist(), 'columns': [str(c) for c in lab]},
                           f'mean S12 S22^-1 z = {mu.tolist()} for columns {[str(c) for c in c1]} (scores z labelled '
                           f'by their own columns)', mean_class(model, items, c1, mean[perm] if mean.shape == mu.shape else mean, in_order, CLS_MOMENTS))
        if not ok_cov:
            ctx.fail_input(ep, inp, {'cov ' + what: cov.tolist()},
                           f'covariance S11 - S12 S22^-1 S21 = {sig.tolist()}', CLS_MOMENTS)
        if cov.ndim == 2 and cov.shape[0] == cov.shape[1]:
            sym = np.max(np.abs(cov - cov.T)) if cov.size else 0.0
            ev = np.linalg.eigvalsh((cov + cov.T) / 2) if cov.size else np.array([0.0])
            slack = 1e-10 * max(1.0, cond22 / 1e2)
            if not (sym <= slack and ev.min() >= -10 * slack):
                ctx.fail_input(ep, inp, {'asymmetry': float(sym), 'min eigenvalue': float(ev.min())},
                               'conditional covariance symmetric positive semi-definite', CLS_PSD)
        if not (ok_mean and ok_cov):
            break
    return checks


def ref_quantile(uni, u):
    """marginal quantile computed INDEPENDENTLY of the library's percent_point where that is possible: for the
    parametric (ScipyModel) marginals scipy's own `ppf` with the fitted parameters, for a constant fit the
    constant, through the Univariate wrapper to the selected instance.  Other marginals (GaussianKDE, whose own
    EPSILON clipping is the recorded C01 finding) fall back to the model's method.  Returns (values, how)."""
    from copulas.univariate.base import ScipyModel
    inner = getattr(uni, '_instance', None)
    if inner is not None and not isinstance(uni, ScipyModel):
        return ref_quantile(inner, u)
    if getattr(uni, '_constant_value', None) is not None:
        return np.full(np.shape(u), float(uni._constant_value)), 'constant'
    if isinstance(uni, ScipyModel) and type(uni).percent_point is ScipyModel.percent_point \
            and hasattr(getattr(uni, 'MODEL_CLASS', None), 'ppf') and isinstance(getattr(uni, '_params', None), dict):
        with np.errstate(all='ignore'):
            return np.asarray(uni.MODEL_CLASS.ppf(u, **uni._params), dtype=float), 'scipy ' + type(uni).__name__
    with np.errstate(all='ignore'):
        return np.asarray(uni.percent_point(u), dtype=float), 'library ' + type(uni).__name__


def backtransform_check(ctx, ep, inp, model, out, rec, items):
    """every sampled FREE value is finite and equals ppf_col(Phi(z)) of the recorded draw z of its own label,
    with Phi computed here by scipy (norm.cdf, cross-checked against exp(norm.logcdf)).  Rows where this
    independent value is itself not finite (Phi(z) rounds to 1.0 in float64 for z > 8.29: the unchanged library
    cannot represent them either) are counted and skipped."""
    if len(rec.mvn) != 1 or not rec.gcd:
        return 0
    draws, cols1 = rec.mvn[0][3], list(rec.gcd[0][2][2])
    if draws.ndim != 2 or draws.shape[1] != len(cols1) or len(draws) != len(out):
        return 0
    given = {k for k, _ in items}
    checks = 0
    for name, uni in zip(model.columns, model.univariates):
        if name in given or name not in cols1:
            continue
        zc = np.asarray(draws[:, cols1.index(name)], dtype=float)
        with np.errstate(all='ignore'):
            u = stats.norm.cdf(zc)
            u2 = np.exp(stats.norm.logcdf(zc))
            expd, how = ref_quantile(uni, u)
        ctx.count('search:back-transform:reference = ' + how.split()[0])
        real = np.asarray(out[name].to_numpy(), dtype=float)
        agree = np.abs(u - u2) <= 1e-12 * np.abs(u2) + 1e-300
        can = np.isfinite(expd) & agree & np.isfinite(zc)
        ctx.count('search:back-transform:rows checked', int(can.sum()))
        if (~can).any():
            ctx.count('search:back-transform:rows beyond float64 Phi (unchanged library gives +-inf too)', int((~can).sum()))
        zmin, zmax = (float(zc[can].min()), float(zc[can].max())) if can.any() else (0.0, 0.0)
        if zmin < -6:
            ctx.count('search:back-transform:draws below -6 sd')
        if zmax > 6:
            ctx.count('search:back-transform:draws above +6 sd')
        checks += 1
        bad = can & ~(np.isfinite(real) & (np.abs(real - expd) <= 1e-12 * np.maximum(1.0, np.abs(expd))))
        if bad.any():
            i = int(np.argmax(bad))
            ctx.fail_input(ep, inp, {'column': str(name), 'row': i, 'recorded draw z (normal score)': float(zc[i]),
                                     'sampled value': float(real[i]), 'rows failing': int(bad.sum()), 'rows': len(real)},
                           f'finite and equal to the marginal quantile of Phi(z) = {float(expd[i])!r} ({how}.ppf with the '
                           f'fitted parameters) with Phi(z) = {float(u[i])!r} (scipy norm.cdf, = exp(norm.logcdf))', CLS_BACK)
    return checks


def make_tail_spec(rng, d=None):
    """two strongly correlated columns (rho 0.85-0.95) + free columns loading on the common component AND on one
    of the two columns\' own noise: conditioning the pair in opposite directions, 2.5-4.5 sd from their means,
    puts a free column\'s conditional mean 6-8 sd into a tail."""
    spec = make_spec(rng, d=d or rng.choice([3, 3, 4]))
    spec['corr'] = {'kind': 'equi', 'block': 2, 'rho': rng.choice([0.85, 0.9, 0.95])}
    spec['dists'] = ['gaussian', 'gaussian'] + [rng.choice(['gaussian', 'gaussian', 'gamma', 'uniform', 'beta'])
                                                for _ in range(spec['d'] - 2)]
    spec['nrows'] = 400
    return spec


def tail_items(model, spec, target, free):
    """legal values for the correlated pair whose Schur mean for `free` is `target` (minimum-norm scores)."""
    c2 = spec['labels'][:2]
    S = model.correlation
    g = np.linalg.solve(S.loc[c2, c2].to_numpy(), S.loc[c2, [free]].to_numpy())[:, 0]
    z = target * g / float(g @ g)
    if np.max(np.abs(z)) > 4.6:
        return None
    cols = list(model.columns)
    items = []
    for k, zi in zip(c2, z):
        with np.errstate(all='ignore'):
            x = float(np.asarray(model.univariates[cols.index(k)].percent_point(stats.norm.cdf(np.array([zi]))))[0])
        if not np.isfinite(x):
            return None
        items.append((k, x))
    return items


def output_scores(model, out, c1):
    """normal scores z = Phi^-1(clip(F_c(x))) of the columns c1 of an output table, via the model's own
    `_transform_to_normal` (columns matched by name)."""
    cols = list(model.columns)
    with np.errstate(all='ignore'):
        scores = np.asarray(model._transform_to_normal(out[cols]), dtype=float)
    return scores[:, [cols.index(c) for c in c1]]


def law_case(ctx, spec, items, container, n, seed, in_order):
    """OUTPUT-based and deterministic, independent of HOW the code draws: seed the global generator, run
    the real sample(n, cond), map the unconditioned columns back to normal scores Z, and regress Z on the
    SAME seed's standard-normal stream G = RandomState(seed).standard_normal((n, m)).  Every way of
    drawing N(mean, cov) that is affine in that stream (multivariate_normal by svd / eigh / cholesky,
    np.random.normal, mean + G @ L) gives Z = 1 a' + G B exactly (up to the cdf/ppf round trip of the
    marginals); then the score-space law of the output IS N(a, B'B), and the property requires
    a = S12 S22^-1 z and B'B = S11 - S12 S22^-1 S21.  If the regression does not fit (another generator,
    clipped rows) nothing is concluded here and 'unidentified' is returned (deep mode: moment bands)."""
    model, df = build(spec)
    c1, c2, z, mu, sig, cond22 = schur(model, items)
    if cond22 > 1e6:
        return 'skipped'
    cond = container_of(items, container)
    state = np.random.get_state()
    try:
        np.random.seed(seed)
        out = model.sample(n, cond)
    except Exception:  # noqa  (reported by oracle_case)
        return 'skipped'
    finally:
        np.random.set_state(state)
    if not (isinstance(out, pd.DataFrame) and set(spec['labels']) <= set(out.columns) and len(out) == n):
        return 'skipped'
    m = len(c1)
    Z = output_scores(model, out, c1)
    G = np.random.RandomState(seed).standard_normal((n, m))
    keep = np.all(np.isfinite(Z), axis=1) & np.all(np.abs(Z) < 5.0, axis=1)   # clip at +-5.17 breaks affinity
    if keep.sum() < 2 * m + 6:
        return 'unidentified'
    X = np.column_stack([np.ones(int(keep.sum())), G[keep]])
    coef, *_ = np.linalg.lstsq(X, Z[keep], rcond=None)
    resid = float(np.max(np.abs(X @ coef - Z[keep])))
    if not resid <= 1e-6:
        return 'unidentified'
    a, B = coef[0], coef[1:]
    law_cov = B.T @ B
    tol = 1e-5 * max(1.0, cond22 / 1e2)
    zmax = max(1.0, float(np.max(np.abs(z))))
    inp = payload(spec, items, container, n, seed)
    ep = 'GaussianMultivariate.sample'
    bad = False
    if not close_arr(a, mu, tol * zmax):
        bad = True
        ctx.fail_input(ep, inp, {'columns': [str(c) for c in c1], 'score-space mean of the output': a.tolist(),
                                 'how': 'output scores = 1 a\' + G B exactly, G = RandomState(seed).standard_normal'},
                       f'mean S12 S22^-1 z = {mu.tolist()}', mean_class(model, items, c1, a, in_order, CLS_STAT))
    if not close_arr(law_cov, sig, tol):
        bad = True
        ctx.fail_input(ep, inp, {'columns': [str(c) for c in c1], 'score-space covariance of the output': law_cov.tolist(),
                                 'how': 'output scores = 1 a\' + G B exactly (max residual %.1e), covariance B\'B; '
                                        'G = RandomState(seed).standard_normal((n, m))' % resid},
                       f'covariance S11 - S12 S22^-1 S21 = {sig.tolist()}', CLS_STAT)
    return 'bad' if bad else 'ok'


def lm_band(k, x):
    """Laurent-Massart: P(chi2_k/k > 1 + up) <= e^-x and P(chi2_k/k < 1 - lo) <= e^-x."""
    return 2 * math.sqrt(x / k) + 2 * x / k, 2 * math.sqrt(x / k)


def stat_case(ctx, spec, items, n, seed):
    """empirical mean / covariance of the normal scores of sample(n, cond) vs the Schur values; every band
    is exact for Gaussian draws (normal tail for means, Laurent-Massart for the variances of e_i and
    e_i +- e_j), total false-alarm probability of one case <= (2 m + 2 m^2) * 2e-12 < 2e-10."""
    model, df = build(spec)
    c1, c2, z, mu, sig, cond22 = schur(model, items)
    if cond22 > 1e6:
        return 0
    sd = np.sqrt(np.clip(np.diag(sig), 0, None))
    # scores are clipped at Phi^-1(1 - EPSILON) = 5.17: keep the whole 6-sigma range inside +-4.6 so that
    # truncation is invisible (P < 1e-9 per draw is not needed: a clipped draw moves a mean by < 1e-4)
    if np.any(np.abs(mu) + 4.2 * sd > 5.0) or np.any(sd < 1e-3):
        ctx.count('search:stat-skipped-tail')
        return 0
    cond = dict(items)
    state = np.random.get_state()
    try:
        np.random.seed(seed)
        out = model.sample(n, cond)
    except Exception as e:  # noqa
        np.random.set_state(state)
        return 0
    finally:
        np.random.set_state(state)
    scores = model._transform_to_normal(out[list(model.columns)])
    cols = list(model.columns)
    Z = scores[:, [cols.index(c) for c in c1]]
    inp = payload(spec, items, 'dict', n, seed)
    ep = 'GaussianMultivariate.sample'
    t = 7.4  # 2 exp(-t^2/2) = 2.6e-12
    x = 27.0  # e^-27 = 1.9e-12
    eps = 1e-3  # slack for the clip at +-5.17 and the cdf/ppf round trip of the marginals
    m = Z.mean(axis=0)
    checks = 0
    for i, c in enumerate(c1):
        checks += 1
        if not abs(m[i] - mu[i]) <= t * sd[i] / math.sqrt(n) + eps:
            ctx.fail_input(ep, inp, {'column': str(c), 'empirical score mean': float(m[i])},
                           f'score mean {mu[i]} +- {t * sd[i] / math.sqrt(n) + eps}', CLS_STAT)
    up, lo = lm_band(n - 1, x)
    dirs = [(i, None, 0) for i in range(len(c1))] + \
           [(i, j, s) for i in range(len(c1)) for j in range(i + 1, len(c1)) for s in (1, -1)]
    for i, j, s in dirs:
        w = np.zeros(len(c1))
        w[i] = 1
        if j is not None:
            w[j] = s
        true_var = float(w @ sig @ w)
        emp = float(np.var(Z @ w, ddof=1))
        checks += 1
        if not (true_var * (1 - lo) - eps <= emp <= true_var * (1 + up) + eps):
            ctx.fail_input(ep, inp, {'direction': w.tolist(), 'columns': [str(c) for c in c1], 'empirical variance': emp},
                           f'variance {true_var} of the Schur complement along that direction, band '
                           f'[{true_var * (1 - lo) - eps}, {true_var * (1 + up) + eps}]', CLS_STAT)
    return checks


CANON_SPEC = {'seed': 12, 'd': 3, 'kind': 'str', 'labels': ['b', 'c', 'a'], 'dists': ['gaussian', 'gaussian', 'gaussian'],
              'nrows': 200}


def frames_equal(a, b):
    if not (isinstance(a, pd.DataFrame) and isinstance(b, pd.DataFrame)):
        return False
    if list(a.columns) != list(b.columns) or len(a) != len(b):
        return False
    x, y = a.to_numpy(dtype=float), b.to_numpy(dtype=float)
    return bool(np.all((x == y) | ((x != x) & (y != y))))


def same_fit(m1, m2):
    """the two objects carry the same CURRENT fit (columns, correlation, marginal parameters)."""
    try:
        if list(m1.columns) != list(m2.columns):
            return False
        if not np.array_equal(m1.correlation.to_numpy(), m2.correlation.to_numpy()):
            return False
        return all(json.dumps(vc.jsonable(u1.to_dict()), sort_keys=True) == json.dumps(vc.jsonable(u2.to_dict()), sort_keys=True)
                   for u1, u2 in zip(m1.univariates, m2.univariates))
    except Exception:  # noqa
        return False


def history_case(ctx, spec, items, container, n, seed):
    """HISTORY oracle (deterministic): `spec` carries `refit_from` - one object that was fitted on earlier
    tables, used for conditional sampling on every subset, and fitted again.  A fitted model is its CURRENT
    fit: sample(n, cond) under a fixed seed and the moments handed to the sampler must be those of a FRESH
    object fitted once on the last table (bitwise output; moments within 1e-12), and equal the Schur values
    of the object's own current correlation."""
    hist_model, df = build(spec)
    fresh_model, _ = build(plain(spec))
    if not same_fit(hist_model, fresh_model):
        # the refit itself left different parameters: fit-history is property C19's; not decided here
        ctx.count('search:history:refit-state-differs(C19)')
        return 0
    res_h, rec_h = real_run(hist_model, container_of(items, container), n, seed)
    res_f, rec_f = real_run(fresh_model, container_of(items, container), n, seed)
    inp = payload(spec, items, container, n, seed)
    ep = 'GaussianMultivariate.sample'
    hist_txt = ' -> '.join(f'fit(table seed {sp["seed"]}, columns {[str(x) for x in sp["labels"]]}) + conditional samples'
                           for sp in spec['refit_from']) + f' -> fit(table seed {spec["seed"]})'
    if res_f[0] != 'ok':
        return 1     # the fresh object fails too: reported by the per-call oracles
    if res_h[0] != 'ok':
        ctx.fail_input(ep, inp, {'history': hist_txt, 'after the history': res_h[2]},
                       'same result as a fresh object fitted once on the last table (which returns a table)', CLS_HISTORY)
        return 2
    checks = 2
    bad = None
    if rec_h.mvn and rec_f.mvn:
        mh, ch = rec_h.mvn[0][0], rec_h.mvn[0][1]
        mf, cf = rec_f.mvn[0][0], rec_f.mvn[0][1]
        if not (mh.shape == mf.shape and ch.shape == cf.shape and close_arr(mh, mf, 1e-12) and close_arr(ch, cf, 1e-12)):
            bad = ({'history': hist_txt, 'mean handed to the sampler after the history': mh.tolist(), 'cov': ch.tolist()},
                   f'moments of a fresh object fitted once on the last table: mean {mf.tolist()} cov {cf.tolist()}')
    if bad is None and rec_h.gcd and rec_f.gcd and list(rec_h.gcd[0][2][2]) != list(rec_f.gcd[0][2][2]):
        bad = ({'history': hist_txt, 'free columns after the history': [str(x) for x in rec_h.gcd[0][2][2]]},
               f'free columns {[str(x) for x in rec_f.gcd[0][2][2]]} of a fresh object')
    if bad is None and not frames_equal(res_h[1], res_f[1]):
        bad = ({'history': hist_txt, 'sample after the history (first rows)': res_h[1].head(3).to_numpy().tolist()},
               f'bitwise the seeded sample of a fresh object fitted once on the last table: '
               f'{res_f[1].head(3).to_numpy().tolist()}')
    if bad is not None:
        ctx.fail_input(ep, inp, bad[0], bad[1], CLS_HISTORY)
    return checks


def shared_sequence(ctx, group, calls):
    """MULTI-OBJECT oracle (deterministic): the models of `group` (same labels, different correlations; restored,
    pickled, cloned or fitted) are alive at once and `calls` = [(model index, items, container, n, seed)] are
    made in that order.  Every call must use ITS OWN model's law: the moments handed to the sampler equal the
    independent Schur reference of that model's own correlation, and the seeded output equals that of the
    fitted object it was made from.  Stops at the first failure; returns the number of checks."""
    models = [build(g)[0] for g in group]
    twins = [build(unrouted(g))[0] for g in group]
    ep = 'GaussianMultivariate.sample'
    checks = 0
    for i, (gi, items, container, n, seed) in enumerate(calls):
        model, spec = models[gi], group[gi]
        items = [tuple(x) for x in items]
        if 'route' in spec:
            _ROUTED_LOG.append((spec, list(items), container, n, seed))
        res, rec = real_run(model, container_of(items, container), n, seed)
        inp = {'models': group, 'calls': [list(c) for c in calls[:i + 1]],
               'note': 'all models are built first, then the calls are made in this order; the last call fails'}
        who = f'model {gi} ({spec.get("route", "fitted")}, table seed {spec["seed"]})'
        checks += 1
        if res[0] != 'ok':
            twin_res, _ = real_run(twins[gi], container_of(items, container), n, seed)
            if twin_res[0] == 'ok':
                ctx.fail_input(ep, inp, {who: res[2]}, 'the same table as the fitted object it was made from returns',
                               CLS_SHARED)
                return checks
            continue
        c1, c2, z, mu, sig, cond22 = schur(model, items)
        if cond22 > 1e8 or not rec.mvn:
            continue
        tol = 1e-10 * max(1.0, cond22 / 1e2)
        zmax = max(1.0, float(np.max(np.abs(z))))
        cols1 = rec.gcd[0][2][2] if rec.gcd else None
        lab = list(cols1) if cols1 is not None and sorted(cols1) == c1 else c1
        perm = [lab.index(c) for c in c1]
        mean, cov = rec.mvn[0][0], rec.mvn[0][1]
        checks += 2
        if not (mean.shape == mu.shape and cov.shape == sig.shape and close_arr(mean[perm], mu, tol * zmax)
                and close_arr(cov[np.ix_(perm, perm)], sig, tol)):
            ctx.fail_input(ep, inp, {who: {'mean handed to the sampler': mean.tolist(), 'cov': cov.tolist(),
                                           'columns': [str(c) for c in lab]}},
                           f'its OWN conditional law: mean S12 S22^-1 z = {mu.tolist()}, Schur complement {sig.tolist()} '
                           f'for columns {[str(c) for c in c1]}', CLS_SHARED)
            return checks
        twin_res, _ = real_run(twins[gi], container_of(items, container), n, seed)
        checks += 1
        if twin_res[0] == 'ok' and not (list(twin_res[1].columns) == list(res[1].columns) and np.allclose(
                res[1].to_numpy(dtype=float), twin_res[1].to_numpy(dtype=float), rtol=1e-9, atol=1e-12, equal_nan=True)):
            ctx.fail_input(ep, inp, {who: res[1].head(3).to_numpy().tolist()},
                           f'the seeded sample of the fitted object it was made from: {twin_res[1].head(3).to_numpy().tolist()}',
                           CLS_SHARED)
            return checks
    return checks


def shared_groups(rng, deep):
    out = []
    bases = [CANON_SPEC] + [make_spec(rng, d=k) for k in ((2, 3, 4, 5) if deep else (3,))]
    for bi, base in enumerate(bases):
        others = [derive_spec(rng, base) for _ in range(2)]
        r = list(ROUTES)
        rng.shuffle(r)
        if bi == 0:
            r = ['from_dict', 'base_from_dict', 'json', 'pickle', 'clone_fit']
        out.append([dict(base, route=r[0]), dict(others[0], route=r[1]), dict(others[1], route=r[2]),
                    dict(base, route=r[3]), dict(others[0], route=r[4]), dict(others[1])])
    return out


def shared_calls(rng, group, deep):
    labels = group[0]['labels']
    subs = all_subsets(labels) if len(labels) <= 3 else rng.sample(all_subsets(labels), 8 if deep else 5)
    calls = []
    for sub in subs:
        for rep in range(2):
            order = list(range(len(group)))
            if rep:
                rng.shuffle(order)
            for gi in order:
                df = build(group[gi])[1]
                items = [[k, pick_value(rng, df[k].to_numpy(), rng.choice(['inside', 'center', 'outside']))] for k in sub]
                if rep and len(items) >= 2:
                    items = items[::-1]
                calls.append([gi, items, 'series' if rng.random() < 0.3 else 'dict', rng.choice([1, 3]),
                              rng.randrange(2 ** 32)])
    return calls


def history_specs(rng, deep):
    """fit histories: same labels / one more column / one column fewer / A -> B -> back to A."""
    out = []
    bases = [CANON_SPEC] + [make_spec(rng, d=k) for k in ((2, 3, 4, 5) if deep else (2, 4))]
    for base in bases:
        other = derive_spec(rng, base)
        out.append(('same-labels', dict(other, refit_from=[base])))
        out.append(('back-to-first', dict(base, refit_from=[base, other])))
        pool = STR_POOL if base['kind'] == 'str' else INT_POOL
        extra = [x for x in pool if x not in base['labels']][0]
        pos = rng.randrange(len(base['labels']) + 1)
        more = derive_spec(rng, base, base['labels'][:pos] + [extra] + base['labels'][pos:])
        out.append(('one-more-column', dict(more, refit_from=[base])))
        out.append(('one-column-fewer', dict(base, refit_from=[more])))
        if deep:
            out.append(('three-fits', dict(more, refit_from=[base, other, derive_spec(rng, more)])))
    return out


def search(ctx, deep):
    rng = ctx.rng('search')
    checks = 0
    # canonical witnesses first (independent of VERIF_SEED): training order [b, c, a]
    model, df = build(CANON_SPEC)
    va, vc_ = float(np.quantile(df['a'], 0.9)), float(np.quantile(df['c'], 0.2))
    for it, container, in_order in [([('c', vc_), ('a', va)], 'dict', True), ([('a', va), ('c', vc_)], 'dict', False),
                                    ([('c', vc_), ('a', va)], 'series', True), ([('b', float(df['b'].max()) + 1.0)], 'series', True)]:
        ctx.count('search:canonical')
        checks += oracle_case(ctx, CANON_SPEC, it, container, 3, 7, in_order)
    # canonical single-free-column witnesses (all-but-one conditioned; 2-column model = one key)
    for it in [[('b', float(np.quantile(df['b'], 0.3))), ('c', vc_)], [('c', vc_), ('a', va)]]:
        ctx.count('search:canonical-law')
        checks += 1
        ctx.count('search:law:' + law_case(ctx, CANON_SPEC, it, 'dict', 40, 11, True))
    # several models alive at once (restored / pickled / cloned / fitted; same labels, different correlations),
    # sampled alternately on the same conditioning sets
    nshared = 0
    for group in shared_groups(rng, deep):
        calls = shared_calls(rng, group, deep)
        nshared += len(calls)
        for g in group:
            ctx.count('search:object-state:' + g.get('route', 'fitted'))
        checks += shared_sequence(ctx, group, calls)
    n_models = 30 if deep else 5
    # d = 2..5 always present, so that "exactly one column left to sample" is met for every size
    specs = [make_spec(rng, d=k, kind=rng.choice(['str', 'str', 'int'])) for k in (2, 3, 4, 5)]
    specs += [make_spec(rng) for _ in range(n_models - len(specs))]
    ncases = 0
    nlaw = 0
    unidentified = []
    for spec in specs:
        model, df = build(spec)
        labels = spec['labels']
        allbutone = [[x for x in labels if x != free] for free in labels]
        subs = subsets(rng, labels)
        if not deep and len(subs) > 6:
            subs = rng.sample(subs, 6)
        subs = allbutone + [sub for sub in subs if sub not in allbutone]
        for sub in subs:
            single = len(sub) == len(labels) - 1
            mode = rng.choice(['inside', 'outside', 'edge', 'int'])
            items = [(k, pick_value(rng, df[k].to_numpy(), mode)) for k in sub]
            rev = items[::-1]
            runs = [(items, 'dict', True), (items, 'series', True)]
            if len(items) >= 2:
                runs += [(rev, 'dict', False), (rev, 'series', False)]
            for it, container, in_order in runs:
                ncases += 1
                ctx.count(f'search:{container}:{"training-order" if in_order else "other-order"}')
                if single:
                    ctx.count('search:one-free-column')
                checks += oracle_case(ctx, spec, it, container, rng.choice([1, 3, 7]), rng.randrange(2 ** 32), in_order)
            # output-based, deterministic: law of the output's normal scores (values near the centre so that
            # the +-5.17 clip of the scores stays out of the way)
            citems = [(k, pick_value(rng, df[k].to_numpy(), 'center')) for k in sub]
            for it, container, in_order in ([(citems, 'dict', True)] +
                                            ([(citems[::-1], 'series', False)] if len(citems) >= 2 else [])):
                seed = rng.randrange(2 ** 32)
                r = law_case(ctx, spec, it, container, 40 + 4 * len(labels), seed, in_order)
                nlaw += 1
                checks += 1
                ctx.count('search:law:' + r + (':one-free-column' if single else ''))
                if r == 'unidentified':
                    unidentified.append((spec, citems))
    # ill-conditioned but invertible conditioning blocks: near-duplicate / equicorrelated columns, conditioning
    # on 2..d-1 of them; the independent float64 reference (np.linalg.solve) decides, tolerance ~ cond(S22)
    nill = 0
    ill = [make_illcond_spec(rng, d=3, structure='neardup', eps=10 ** rng.uniform(-4.0, -3.0), gaussian_block=True),
           make_illcond_spec(rng, d=4, structure='neardup', eps=10 ** rng.uniform(-2.5, -1.0), gaussian_block=True),
           make_illcond_spec(rng, d=6, structure='equi')]
    ill += [make_illcond_spec(rng) for _ in range(12 if deep else 2)]
    for spec in ill:
        model, df = build(spec)
        for sub in block_subsets(rng, spec, cap=12 if deep else 5):
            items = [(k, pick_value(rng, df[k].to_numpy(), rng.choice(['inside', 'center', 'outside']))) for k in sub]
            for it, container, in_order in [(items, 'dict', True), (items[::-1], 'series', False)]:
                nill += 1
                c22 = schur(model, it)[5]
                ctx.count('search:ill-conditioned:cond(S22) ' + ('<1e2' if c22 < 1e2 else '1e%d..' % int(math.floor(math.log10(c22)))))
                checks += oracle_case(ctx, spec, it, container, rng.choice([1, 3]), rng.randrange(2 ** 32), in_order)
            citems = [(k, pick_value(rng, df[k].to_numpy(), 'center')) for k in sub]
            r = law_case(ctx, spec, citems, 'dict', 40 + 4 * spec['d'], rng.randrange(2 ** 32), True)
            checks += 1
            ctx.count('search:law:' + r + ':ill-conditioned')
    # constant training columns (explicit class / default wrapper / restored model), conditioned at the constant
    # and at other values: "the conditioned columns equal the given values" decides
    nconst = 0
    cspecs = [make_const_spec(rng, d=3, how='explicit'), make_const_spec(rng, d=4, how='restored'),
              make_const_spec(rng, d=3, how='default')]
    cspecs += [make_const_spec(rng, how=rng.choice(['explicit', 'default', 'restored'])) for _ in range(10 if deep else 1)]
    for spec in cspecs:
        model, df = build(spec)
        for it in const_condition_sets(rng, spec, df, cap=14 if deep else 7):
            for container in ('dict', 'series'):
                nconst += 1
                ctx.count('search:constant-column:' + ('default-wrapper' if 'default' in spec['dists'] else 'explicit-class')
                          + (':restored' if 'route' in spec else ''))
                checks += oracle_case(ctx, spec, it, container, rng.choice([1, 4]), rng.randrange(2 ** 32), True)
    # extreme but legal conditioning values: a strongly correlated pair conditioned in opposite directions
    # (each 2.5-4.6 sd from its mean) puts the conditional mean of a free column 6..8.2 sd into the LOWER or
    # UPPER tail; `backtransform_check` (inside oracle_case) requires every free value to be finite and equal to
    # ppf(Phi(z)) of its recorded draw.  Beyond z = 8.29 Phi(z) is 1.0 in float64 and the unchanged library
    # returns +inf for unbounded marginals too: those rows are counted and skipped, targets are capped at 8.2.
    ntail = 0
    tspecs = []
    for _ in range(40):
        if len(tspecs) >= (8 if deep else 3):
            break
        tspec = make_tail_spec(rng)
        tmodel, _ = build(tspec)
        frees = [f for f in tspec['labels'][2:] if tail_items(tmodel, tspec, -7.5, f) is not None]
        if frees:
            tspecs.append((tspec, frees))
    for tspec, frees in tspecs:
        tmodel, _ = build(tspec)
        tdf = build(tspec)[1]
        for k in tspec['labels'][:2]:
            col = tdf[k].to_numpy()
            span = float(col.max() - col.min())
            for v in (float(col.max()) + 4 * span, float(col.min()) - 4 * span):
                ntail += 1
                ctx.count('search:tail:one column far outside the training range (score +-5.17)')
                checks += oracle_case(ctx, tspec, [(k, v)], 'dict', 40, rng.randrange(2 ** 32), True)
        for free in frees[:2]:
            targets = [-8.2, -7.8, -7.0, -6.0, 6.0, 7.0, 7.8, 8.2] + [rng.choice([-1, 1]) * rng.uniform(6.0, 8.2) for _ in range(4 if deep else 1)]
            for t in targets:
                it = tail_items(tmodel, tspec, t, free)
                if it is None:
                    ctx.count('search:tail:target not reachable with scores within +-4.6')
                    continue
                for items_, container, in_order in [(it, 'dict', True), (it[::-1], 'series', False)]:
                    ntail += 1
                    ctx.count('search:tail:conditional mean %+d sd' % int(t))
                    checks += oracle_case(ctx, tspec, items_, container, 5, rng.randrange(2 ** 32), in_order)
    # fit histories: the conditional law must be that of the CURRENT fit
    nhist = 0
    for what, hspec in history_specs(rng, deep):
        hmodel, hdf = build(hspec)
        labels = hspec['labels']
        subs = all_subsets(labels) if len(labels) <= 4 else subsets(rng, labels)
        if not deep and len(subs) > 8:
            subs = rng.sample(subs, 8)
        for sub in subs:
            items = [(k, pick_value(rng, hdf[k].to_numpy(), rng.choice(['inside', 'center', 'outside']))) for k in sub]
            for it, container in [(items, 'dict')] + ([(items[::-1], 'series')] if len(items) >= 2 or rng.random() < 0.3 else []):
                nhist += 1
                ctx.count('search:history:' + what)
                checks += history_case(ctx, hspec, it, container, rng.choice([1, 4]), rng.randrange(2 ** 32))
    nstat = 0
    if deep:
        # moment bands (n = 20000): every case the deterministic oracle could not decide, every
        # all-but-one subset of the first models, and random subsets
        todo = list(unidentified[:40])
        for spec in specs[:12]:
            model, df = build(spec)
            labels = spec['labels']
            cand = [[x for x in labels if x != free] for free in labels]
            allsubs = subsets(rng, labels)
            cand += rng.sample(allsubs, min(2, len(allsubs)))
            for sub in cand:
                todo.append((spec, [(k, pick_value(rng, df[k].to_numpy(), 'center')) for k in sub]))
        for spec, items in todo:
            c = stat_case(ctx, spec, items, 20000, rng.randrange(2 ** 32))
            checks += c
            nstat += 1 if c else 0
            if c:
                ctx.count('search:stat' + (':one-free-column' if len(items) == spec['d'] - 1 else ''))
    ctx.support = {'oracle_checks': checks, 'cases': ncases, 'law_cases': nlaw, 'history_cases': nhist, 'ill_conditioned_cases': nill,
                   'constant_column_cases': nconst, 'multi_object_calls': nshared, 'tail_cases': ntail,
                   'statistical_cases': nstat,
                   'deep': deep, 'failures': len(ctx.failing)}


def replay(ctx, payload_):
    inp = payload_['input']
    if 'calls' in inp and 'models' in inp:
        before = len(ctx.failing)
        shared_sequence(ctx, inp['models'], inp['calls'])
        return any(f['class'] == payload_.get('class') for f in ctx.failing[before:])
    spec = inp['model']
    items = [(k, v) for k, v in inp['conditions']]
    before = len(ctx.failing)
    keys = [k for k, _ in items]
    in_order = keys == [c for c in spec['labels'] if c in keys]
    if payload_.get('class') == CLS_HISTORY and 'refit_from' in spec:
        history_case(ctx, spec, items, inp['container'], inp['n'], inp['seed'])
    elif payload_.get('class') == CLS_STAT:
        if inp['n'] >= 5000:
            stat_case(ctx, spec, items, inp['n'], inp['seed'])
        else:
            law_case(ctx, spec, items, inp['container'], inp['n'], inp['seed'], in_order)
    else:
        oracle_case(ctx, spec, items, inp['container'], inp['n'], inp['seed'], in_order)
    return any(f['class'] == payload_.get('class') for f in ctx.failing[before:])
