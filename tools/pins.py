"""Source pins: a normalised AST hash of every function/class-attribute block in /repo/copulas.

`pins.json` (committed) records the hashes of the tree the models were written against.  A check
compares the functions in its property's anchor files with the pins; a difference is NOT a
violation and breaks nothing - it only makes the check run its correspondence at the thorough scale
and its failing-input search in deep mode even in the quick tier ("the code the hand model was
written against has changed: look harder").  Regenerate with `python3 tools/pins.py --write` after
an intentional change of /repo (e.g. a fix: commit)."""
import ast
import hashlib
import json
import os
import sys

V = os.path.dirname(os.path.dirname(os.path.abspath(__file__)))


def _strip(node):
    for n in ast.walk(node):
        if isinstance(n, (ast.FunctionDef, ast.ClassDef, ast.Module, ast.AsyncFunctionDef)):
            b = n.body
            if b and isinstance(b[0], ast.Expr) and isinstance(b[0].value, ast.Constant) and isinstance(b[0].value.value, str):
                n.body = b[1:] or [ast.Pass()]
    return node


def hashes(repo):
    out = {}
    root = os.path.join(repo, 'copulas')
    for dp, _, files in os.walk(root):
        for fn in sorted(files):
            if not fn.endswith('.py'):
                continue
            path = os.path.join(dp, fn)
            rel = os.path.relpath(path, repo)
            try:
                tree = _strip(ast.parse(open(path).read()))
            except SyntaxError:
                out[rel + '::<syntax-error>'] = 'x'
                continue

            def visit(node, prefix):
                for n in node.body:
                    if isinstance(n, (ast.FunctionDef, ast.AsyncFunctionDef)):
                        out[f'{rel}::{prefix}{n.name}'] = hashlib.sha256(ast.unparse(n).encode()).hexdigest()[:16]
                    elif isinstance(n, ast.ClassDef):
                        attrs = [x for x in n.body if not isinstance(x, (ast.FunctionDef, ast.AsyncFunctionDef, ast.ClassDef))]
                        out[f'{rel}::{prefix}{n.name}.<attrs>'] = hashlib.sha256(
                            ('\n'.join(ast.unparse(x) for x in attrs) + '|' + ','.join(ast.unparse(b) for b in n.bases)
                             + '|' + repr([ast.unparse(d) for d in n.decorator_list])).encode()).hexdigest()[:16]
                        visit(n, prefix + n.name + '.')
                top = [x for x in node.body if not isinstance(x, (ast.FunctionDef, ast.AsyncFunctionDef, ast.ClassDef))] \
                    if isinstance(node, ast.Module) else []
                if top:
                    out[f'{rel}::<module>'] = hashlib.sha256('\n'.join(ast.unparse(x) for x in top).encode()).hexdigest()[:16]
            visit(tree, '')
    return out


def changed(repo, files):
    """names of pinned units in `files` (repo-relative) whose hash differs from pins.json (or that are new/removed)."""
    try:
        pins = json.load(open(os.path.join(V, 'pins.json')))['hashes']
    except Exception:
        return []
    now = hashes(repo)
    keys = {k for k in set(pins) | set(now) if k.split('::')[0] in files}
    return sorted(k for k in keys if pins.get(k) != now.get(k))


if __name__ == '__main__':
    repo = os.environ.get('COPULAS_REPO', '/repo')
    h = hashes(repo)
    if '--write' in sys.argv:
        import subprocess
        head = subprocess.run(['git', '-C', repo, 'rev-parse', 'HEAD'], capture_output=True, text=True).stdout.strip()
        json.dump({'repo_head': head, 'hashes': h}, open(os.path.join(V, 'pins.json'), 'w'), indent=0, sort_keys=True)
        print(len(h), 'units pinned at', head[:8])
    else:
        allfiles = {k.split('::')[0] for k in h}
        print(changed(repo, allfiles))
