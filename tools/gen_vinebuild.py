"""Translator target 'VineBuild' -> lean/CopVerif/Gen/VineBuild.lean (property C16, tie (T), DESIGN 2.2).

Reads the AST of /repo/copulas/multivariate/tree.py and vine.py (nothing is imported) and emits, in namespace
`CopVerif.Gen.VineBuild`, the INDEX / SELECTION logic of the vine construction.  Types (`Edge`, `Tree`, `Fail`, `Mat`,
`Choice`, `VType`), the set primitives and the acceptors of numpy's / CPython's unspecified tie-breaking are those of
`CopVerif/Model/Vine.lean`; `Lemmas/VineBuildGen.lean` + `Props/C16c.lean` prove generated = hand model.

    -- translated (every expression is read off the source; locals are substituted away)
    identifyEdsIng, checkConstraintPy, isAdjacentPy         whole functions `Edge._identify_eds_ing`, `Tree._check_constraint`, `Edge.is_adjacent`
    sortEdgeKey                                             the `key=` lambda of `Edge.sort_edge`
    getChildEdge                                            `Edge.get_child_edge` through `Edge.__init__`: L, R, D, parents of the child
    sortTauRow, sortTauKey, sortTauDescending               `Tree._sort_tau_by_y`: the three columns of `temp` per row (which cell of the tau
                                                            matrix, the `np.nan` on the diagonal, `abs`, the `-10` sentinel), the sort column, `[::-1]`
    centerFirstY/Count/Edge/Tau                             `CenterTree._build_first_tree`: argument of the sort, loop count, Edge(...) arguments, the tau cell
    getAnchor                                               `CenterTree.get_anchor` (the cell of the `np.arange` column that is read)
    centerKthCount/Y/Parents/Tau                            `CenterTree._build_kth_tree`: which two previous edges are joined, which column is the tau
    directFirstY, directInitT1/TauT1/Mask, directLoopCount, directStep, directEdgeCount, directFirstEdge
                                                            `DirectTree._build_first_tree`: initial path, masked columns + sentinel, which rows are
                                                            argmax'ed, the comparison, what is prepended / appended / masked in each arm, the edges
    directKthCount/Parents/Tau                              `DirectTree._build_kth_tree`
    regFirstStart/Cand/Pair/Key/Edge/Tau/Add, regKthStart/Cand/Pair/Key/Parents/Tau/Add
                                                            `RegularTree._build_first_tree` / `_build_kth_tree`: start set, candidate condition, candidate
                                                            pair, sort key (`neg_tau`), edge / parents, tau cell, node added
    fitLevel, fitIsFirst                                    `Tree.fit`
    trainFirstIndex/Nodes, trainLoopLo/Hi, trainKthIndex/Nodes/Prev, fitDefaultTruncated, fitTruncated, fitDepth
                                                            `VineCopula.train_vine`, head of `VineCopula.fit`
    -- skeleton (fixed text, emitted only when the statement sequence matches)
    sortKeys, sortedChild, buildFirstCenter, buildKthCenter, directLoop, directEdges, buildFirstDirect, buildKthDirect,
    regFirstGo, buildFirstRegular, regKthGo, buildKthRegular, treeFit, trainLoop, trainVineGen

THE TABLE OF PYTHON / NUMPY MEANINGS (trusted):
    a Python set of ints = its strictly increasing list: {a, b} -> pySet (= Model.norm), set() -> [], A.update(B), A | B -> pyUnion,
    A & B -> pyInter, A ^ B -> pySymDiff, sorted(S) -> pySorted (identity on that representation), len(S) -> pyLen,
    a, b = <list> -> unpack2 (ValueError), sorted([a, b]) -> sortedPair, sorted(xs, key=k) of two edges -> sorted2Swaps (stable),
    tuple comparison -> tupleLt, x in S -> S.contains x, edges[i] -> edges.getD i default (i ranges over range(len(edges))),
    m[i, j] -> Mat.get, m[i, :] -> matRow, m[:, j] -> matCol, m[:, j] = v -> Mat.setCol, m[:, [js]] = v -> setCols,
    np.argmax -> Model.argmax (first maximal index, NaN-free rows), np.max(row) -> npMax (the value at the argmax),
    np.append(a, b) -> ++ (scalars as singletons), T1[0] / T1[-1] -> pyFirst / pyLast, int(x) -> x on indices,
    np.arange(n)[i] -> i, abs / np.abs -> NumFns.abs, -1.0 * x -> -x (exact in IEEE), np.nan -> NV.nan, x[np.isnan(x)] = c -> nvFill,
    keys.argsort()[::-1] / sorted(S, key=k)[0]: NOT a function (numpy's sort is unstable, a set has no order): the choice made
    is an input and is ACCEPTED iff the code could have made it (argsortHeadOk / argsortTop2Ok / sortedHeadOk, built on the
    model's orderOk / top2Ok).

PINNED (anything else raises `pyast2lean.Untranslatable` with file:line): the loop forms (`for itr in range(count)` reading
row `itr` of the sorted array; the greedy `for k in range(2, n - 1)` + `if … else` of DirectTree; `for k in range(count)` over
`T1[k], T1[k + 1]`; `while len(X) != self.n_nodes` with the nested candidate loops, `sorted(adj_set, key=…)[0]`; the
`len(adj_set) == 0` branch of RegularTree._build_kth_tree, modelled as non-termination), that `get_child_edge` receives the two
results of `sort_edge` in order, `Edge.index` = position in the list (not modelled), the aliasing of `tau_y` with the tau matrix
(the NaN written to the diagonal is never read back), `Tree.fit`'s `if not self.edges` / first-vs-kth dispatch, `train_vine`'s
statement sequence (`self.trees[k - 1]` is the tree built last).  NOT translated: everything about the pair copulas
(`select_copula`, `get_conditional_uni`, `u_matrix`, `prepare_next_tree`, `get_tau_matrix` — C17's generator translates that
data flow); such statements are skipped, and a structural expression may not depend on their results.
"""
import ast
import os
from collections import namedtuple

from pyast2lean import Untranslatable, find_class, find_method, strip_doc

TARGET = 'VineBuild'
TREE_REL = 'copulas/multivariate/tree.py'
VINE_REL = 'copulas/multivariate/vine.py'

HEADER = 'import CopVerif.Model.Vine\n/-! GENERATED by tools/regen.py (tools/gen_vinebuild.py) from the AST of /repo/copulas/multivariate/tree.py and\n    vine.py on every run - do not edit.  Index / selection logic of the vine construction.  Everything between\n    `-- ==== translated` and `-- ==== skeleton` is read off the Python source; the table of Python/numpy meanings\n    above it and the skeleton (loops) below it are fixed text of the translator, the latter emitted only after the\n    statement sequence of the looping functions matched its whitelist shape. -/\nset_option linter.unusedVariables false\nnamespace CopVerif.Gen.VineBuild\nopen CopVerif CopVerif.Model.Vine\n\n-- ==== table of Python / numpy meanings\n/-- `{a, b, …}`, `set()`: a Python set of small ints is represented by its strictly increasing list -/\ndef pySet (l : List Nat) : List Nat := norm l\n/-- `A.update(B)`, `A | B` -/\ndef pyUnion (A B : List Nat) : List Nat := norm (A ++ B)\n/-- `A & B` -/\ndef pyInter (A B : List Nat) : List Nat := inter A B\n/-- `A ^ B` -/\ndef pySymDiff (A B : List Nat) : List Nat := symDiff A B\n/-- `sorted(S)` of a set: its strictly increasing list -/\ndef pySorted (S : List Nat) : List Nat := S\n/-- `len(S)` -/\ndef pyLen (S : List Nat) : Nat := S.length\n/-- `a, b = <list>` -/\ndef unpack2 (l : List Nat) : Except Fail (Nat × Nat) :=\n  match l with\n  | [a, b] => .ok (a, b)\n  | _ => .error .valueError\n/-- `(a1, a2) < (b1, b2)` on tuples of ints -/\ndef tupleLt (a b : Nat × Nat) : Bool := a.1 < b.1 || (a.1 == b.1 && a.2 < b.2)\n/-- `sorted([p, q], key=key)` (stable) swaps the two iff `key(q) < key(p)` -/\ndef sorted2Swaps (key : Edge → Nat × Nat) (p q : Edge) : Bool := tupleLt (key q) (key p)\n/-- `left, right = sorted([a, b])` -/\ndef sortedPair (a b : Nat) : Nat × Nat := if b < a then (b, a) else (a, b)\n/-- a float cell that may hold the literal `np.nan` (the numeric signature has no NaN value) -/\ninductive NV (α : Type) where\n  | nan\n  | val (a : α)\n/-- one row of the 3-column array `temp` of `_sort_tau_by_y`: column 0 holds `np.arange` (an index) -/\nstructure TempRow (α : Type) where\n  c0 : Nat\n  c1 : α\n  c2 : α\n/-- `T1[0]` -/\ndef pyFirst (l : List Nat) : Nat := l.headD 0\n/-- `T1[-1]` -/\ndef pyLast (l : List Nat) : Nat := l.getLastD 0\n\nsection\nvariable {α : Type} [LT α] [DecidableLT α] [Neg α] [NumFns α]\n/-- `abs(x)` / `np.abs(x)` -/\ndef nvAbs : NV α → NV α\n  | .nan => .nan\n  | .val a => .val (NumFns.abs a)\n/-- `x[np.isnan(x)] = c` on one cell -/\ndef nvFill (x : NV α) (c : α) : α :=\n  match x with\n  | .nan => c\n  | .val a => if NumFns.isNaN a then c else a\n/-- `m[i, :]` -/\ndef matRow (m : Mat α) (i : Nat) : List α := m.getD i []\n/-- `m[:, j]` -/\ndef matCol (m : Mat α) (j : Nat) : List α := m.map fun row => row.getD j (NumFns.ofNat 0)\n/-- `np.max(row)`: the value at `np.argmax(row)` (NaN-free rows) -/\ndef npMax (row : List α) : α := row.getD (argmax row) (NumFns.ofNat 0)\n/-- `m[:, [js]] = v` -/\ndef setCols (m : Mat α) (js : List Nat) (v : α) : Mat α := js.foldl (fun m j => m.setCol j v) m\n/-- the first entries of `keys.argsort()[::-1]` (`desc`) / `keys.argsort()` for SOME tie-breaking of the\n    unstable sort: accepted iff the code could have produced them (acceptor of `Model/Vine.lean`) -/\ndef argsortHeadOk (desc : Bool) (n : Nat) (keys : List α) (picks : List Nat) : Bool :=\n  if desc then orderOk n keys picks else orderOk n (keys.map fun k => -k) picks\n/-- the first two entries of the same order -/\ndef argsortTop2Ok (desc : Bool) (n : Nat) (keys : List α) (a b : Nat) : Bool :=\n  if desc then top2Ok n keys a b else top2Ok n (keys.map fun k => -k) a b\n/-- `q` can be `sorted(cands, key=key)[0]` for SOME tie-breaking of equal keys -/\ndef sortedHeadOk (key : Nat × Nat → α) (cands : List (Nat × Nat)) (q : Nat × Nat) : Bool :=\n  cands.contains q && cands.all fun c => !decide (key c < key q)\n/-- `{(x, k) for x in vis for k in range(n) if cand x k}` in generation order -/\ndef adjSet (n : Nat) (vis : List Nat) (cand : Nat → Nat → Bool) (pair : Nat → Nat → Nat × Nat) :\n    List (Nat × Nat) :=\n  vis.flatMap fun x => (List.range n).filterMap fun k => if cand x k then some (pair x k) else none\nend\n\n-- ==== translated\n'

SECTION = 'section\nvariable {α : Type} [LT α] [DecidableLT α] [Neg α] [NumFns α]\n\n'

SKELETON = '-- ==== skeleton\n/-- column `sortTauKey` of `temp` -/\ndef sortKeys (tau : Mat α) (y n : Nat) : List α :=\n  (List.range n).map fun i => sortTauKey (sortTauRow tau y i)\n\n/-- `lp, rp = Edge.sort_edge([edges[i], edges[j]])`; `Edge.get_child_edge(index, lp, rp)` -/\ndef sortedChild (prev : Tree) (ij : Nat × Nat) : Except Fail Edge := do\n  let p ← getE prev ij.1\n  let q ← getE prev ij.2\n  if sorted2Swaps sortEdgeKey p q then getChildEdge q p ij.2 ij.1 else getChildEdge p q ij.1 ij.2\n\n/-- `CenterTree._build_first_tree`: `for itr in range(count): … tau_sorted[itr] …`; `tau_sorted[itr]` is the\n    `temp` row of index `picks[itr]`, `picks` being the (accepted) head of the sort order -/\ndef buildFirstCenter (n : Nat) (tau : Mat α) (picks : List Nat) : Except Fail (Tree × List α) :=\n  if argsortHeadOk sortTauDescending n (sortKeys tau centerFirstY n) picks\n      && picks.length == centerFirstCount n then\n    .ok (picks.map fun p => centerFirstEdge (sortTauRow tau centerFirstY p),\n         picks.map fun p => centerFirstTau tau (sortTauRow tau centerFirstY p))\n  else .error (.rejected "center order")\n\n/-- `CenterTree._build_kth_tree` -/\ndef buildKthCenter (n : Nat) (prev : Tree) (tau : Mat α) (picks : List Nat) :\n    Except Fail (Tree × List α) :=\n  if argsortHeadOk sortTauDescending n (sortKeys tau (centerKthY n) n) picks\n      && picks.length == centerKthCount n then do\n    let t ← picks.mapM fun p =>\n      sortedChild prev (centerKthParents n (sortTauRow tau (centerKthY n) p))\n    pure (t, picks.map fun p => centerKthTau (sortTauRow tau (centerKthY n) p))\n  else .error (.rejected "center order")\n\n/-- the `for k in range(2, n_nodes - 1)` loop of `DirectTree._build_first_tree` -/\ndef directLoop : Nat → Mat α → List Nat → List α → List Nat × List α\n  | 0, _, T1, tT1 => (T1, tT1)\n  | fuel + 1, m, T1, tT1 =>\n    directLoop fuel (directStep m T1 tT1).1 (directStep m T1 tT1).2.1 (directStep m T1 tT1).2.2\n\n/-- `for k in range(count): Edge(k, *sorted([T1[k], T1[k + 1]]), …)` -/\ndef directEdges : List Nat → Tree\n  | a :: b :: rest => directFirstEdge a b :: directEdges (b :: rest)\n  | _ => []\n\n/-- `DirectTree._build_first_tree`; `left`, `right` = `tau_sorted[0, 0]`, `tau_sorted[1, 0]` -/\ndef buildFirstDirect (n : Nat) (tau : Mat α) (left right : Nat) : Except Fail (Tree × List α) :=\n  if argsortTop2Ok sortTauDescending n (sortKeys tau directFirstY n) left right then\n    let s0 := sortTauRow tau directFirstY left\n    let s1 := sortTauRow tau directFirstY right\n    let r := directLoop (directLoopCount n) (directInitMask tau (directInitT1 s0 s1))\n      (directInitT1 s0 s1) (directInitTauT1 s0 s1)\n    .ok ((directEdges r.1).take (directEdgeCount n), r.2.take (directEdgeCount n))\n  else .error (.rejected "direct top-2")\n\n/-- `DirectTree._build_kth_tree` -/\ndef buildKthDirect (n : Nat) (prev : Tree) (tau : Mat α) : Except Fail (Tree × List α) := do\n  let t ← (List.range (directKthCount n)).mapM fun k => sortedChild prev (directKthParents k)\n  pure (t, (List.range (directKthCount n)).map (directKthTau tau))\n\n/-- `RegularTree._build_first_tree`: `while len(X) != n_nodes`, following the supplied choices -/\ndef regFirstGo (n : Nat) (tau : Mat α) : List Nat → List (Nat × Nat) → Except Fail (Tree × List α)\n  | vis, [] => if vis.length == n then .ok ([], []) else .error (.rejected "too few steps")\n  | vis, q :: qs =>\n    if vis.length == n then .error (.rejected "too many steps")\n    else if (adjSet n vis (regFirstCand vis) regFirstPair).isEmpty then .error .indexError\n    else if !sortedHeadOk (regFirstKey tau) (adjSet n vis (regFirstCand vis) regFirstPair) q then\n      .error (.rejected "prim step")\n    else do\n      let (es, ts) ← regFirstGo n tau (vis ++ [regFirstAdd q]) qs\n      pure (regFirstEdge q :: es, regFirstTau tau q :: ts)\n\ndef buildFirstRegular (n : Nat) (tau : Mat α) (choices : List (Nat × Nat)) :\n    Except Fail (Tree × List α) :=\n  regFirstGo n tau regFirstStart choices\n\n/-- `RegularTree._build_kth_tree`; the `len(adj_set) == 0` branch never terminates (`Fail.diverges`) -/\ndef regKthGo (level n : Nat) (prev : Tree) (tau : Mat α) :\n    List Nat → List (Nat × Nat) → Except Fail (Tree × List α)\n  | vis, [] => if vis.length == n then .ok ([], []) else\n      if (adjSet n vis (regKthCand level prev vis) regKthPair).isEmpty then .error .diverges\n      else .error (.rejected "too few steps")\n  | vis, q :: qs =>\n    if vis.length == n then .error (.rejected "too many steps")\n    else if (adjSet n vis (regKthCand level prev vis) regKthPair).isEmpty then .error .diverges\n    else if !sortedHeadOk (regKthKey tau) (adjSet n vis (regKthCand level prev vis) regKthPair) q then\n      .error (.rejected "prim step")\n    else do\n      let e ← sortedChild prev (regKthParents q)\n      let (es, ts) ← regKthGo level n prev tau (vis ++ [regKthAdd q]) qs\n      pure (e :: es, regKthTau tau q :: ts)\n\ndef buildKthRegular (level n : Nat) (prev : Tree) (tau : Mat α) (choices : List (Nat × Nat)) :\n    Except Fail (Tree × List α) :=\n  regKthGo level n prev tau regKthStart choices\n\n/-- `Tree.fit(index, n_nodes, tau_matrix, previous_tree)`: edges and their `.tau` -/\ndef treeFit (vt : VType) (index n : Nat) (prev : Tree) (c : Choice α) : Except Fail (Tree × List α) :=\n  if fitIsFirst index then\n    match vt with\n    | .center => buildFirstCenter n c.tau c.picks\n    | .direct =>\n      match c.picks with\n      | [l, r] => buildFirstDirect n c.tau l r\n      | _ => .error (.badInput "direct first tree needs [left, right]")\n    | .regular => buildFirstRegular n c.tau (unflatten c.picks)\n  else\n    match vt with\n    | .center => buildKthCenter n prev c.tau c.picks\n    | .direct => buildKthDirect n prev c.tau\n    | .regular => buildKthRegular (fitLevel index) n prev c.tau (unflatten c.picks)\n\n/-- the `for k in range(lo, hi)` loop of `train_vine`; `prev` = `self.trees[k - 1]` -/\ndef trainLoop (vt : VType) (d : Nat) : Nat → Nat → Tree → List (Choice α) →\n    Except Fail (List (Tree × List α))\n  | 0, _, _, _ => .ok []\n  | fuel + 1, k, prev, cs =>\n    match cs with\n    | [] => .error (.badInput "missing tree data")\n    | c :: cs => do\n      let r ← treeFit vt (trainKthIndex k) (trainKthNodes d k) prev c\n      let rest ← trainLoop vt d fuel (k + 1) r.1 cs\n      pure (r :: rest)\n\n/-- `VineCopula.train_vine` on `d = n_var` columns with `self.truncated = t` -/\ndef trainVineGen (vt : VType) (d t : Nat) (cs : List (Choice α)) :\n    Except Fail (List (Tree × List α)) :=\n  match cs with\n  | [] => .error (.badInput "missing tree data")\n  | c :: cs => do\n    let r ← treeFit vt trainFirstIndex (trainFirstNodes d) [] c\n    let rest ← trainLoop vt d (trainLoopHi d t - trainLoopLo) trainLoopLo r.1 cs\n    pure (r :: rest)\n\nend\nend CopVerif.Gen.VineBuild\n'

V = namedtuple('V', 'term ty aux')
V.__new__.__defaults__ = (None,)


def _src(node, n=90):
    return ' '.join(ast.unparse(node).split())[:n]


def _doc(text):
    return text.replace('/-', '/ -').replace('-/', '- /')


COP_MARKS = ('select_copula', 'get_conditional_uni', 'self.u_matrix')


class Tx:
    """typed symbolic evaluation of the index / selection expressions of tree.py; locals are substituted away (so
    renaming a local, introducing a temporary or reordering independent statements gives the same Lean text)."""

    def __init__(self, rel, env=None, edge_init=None):
        self.rel, self.env, self.edge_init = rel, dict(env or {}), edge_init
        self.binds = []          # monadic binds (Lean lines)
        self.loopvar = None      # name of the loop variable that indexes the rows of the sorted array
        self.allow_consts = False  # `tau_sorted[0, c]`, `tau_sorted[1, c]` readable (DirectTree)
        self.table_y = None      # argument of the one `_sort_tau_by_y` call
        self.no_table = False

    def bad(self, node, what):
        raise Untranslatable(f'{self.rel}:{getattr(node, "lineno", "?")}', what)

    # ------------------------------------------------------------------ expressions
    def is_cop(self, e):
        """pair-copula data flow (C17's generator translates it): not part of the structure"""
        s = ast.unparse(e)
        if any(m in s for m in COP_MARKS):
            return True
        for n in ast.walk(e):
            if isinstance(n, ast.Name) and n.id in self.env and self.env[n.id].ty == 'cop':
                # a structural expression may not depend on pair-copula data, except as a constructor argument
                return not (isinstance(e, ast.Call) and _src(e.func) in ('Edge', 'Edge.get_child_edge', 'cls'))
        return False

    def num_const(self, e):
        """numeric literal (possibly negated) -> Lean term of type α"""
        neg = False
        if isinstance(e, ast.UnaryOp) and isinstance(e.op, ast.USub):
            neg, e = True, e.operand
        if isinstance(e, ast.Constant) and isinstance(e.value, (int, float)) and not isinstance(e.value, bool) \
                and e.value == int(e.value) and e.value >= 0:
            t = f'(NumFns.ofNat {int(e.value)})'
            return f'(-{t})' if neg else t
        return None

    def want(self, e, *tys):
        v = self.ex(e)
        if v.ty not in tys:
            self.bad(e, f'`{_src(e)}` has type {v.ty}, expected {" / ".join(tys)}')
        return v

    def ex(self, e):
        if isinstance(e, ast.Constant):
            if isinstance(e.value, bool):
                return V('true' if e.value else 'false', 'bool')
            if isinstance(e.value, int) and e.value >= 0:
                return V(str(e.value), 'nat')
            if e.value is None:
                return V('none', 'none')
            c = self.num_const(e)
            if c is not None:
                return V(c, 'num')
            self.bad(e, f'literal {e.value!r}')
        if isinstance(e, ast.UnaryOp) and isinstance(e.op, ast.USub):
            c = self.num_const(e)
            if c is not None:
                return V(c, 'num')
            v = self.ex(e.operand)
            if v.ty == 'num':
                return V(f'(-{v.term})', 'num')
            if v.ty == 'matfun':
                f = v.aux
                return V(None, 'matfun', lambda i, j: f'(-{f(i, j)})')
            self.bad(e, f'negation of a {v.ty}')
        if isinstance(e, ast.UnaryOp) and isinstance(e.op, ast.Not):
            return V(f'(!{self.want(e.operand, "bool").term})', 'bool')
        if isinstance(e, ast.Name):
            if e.id in self.env:
                return self.env[e.id]
            self.bad(e, f'unknown name `{e.id}`')
        if isinstance(e, ast.Attribute):
            return self.attr(e)
        if isinstance(e, ast.Subscript):
            return self.subscript(e)
        if isinstance(e, ast.Set):
            vs = [self.want(x, 'nat') for x in e.elts]
            return V(f'(pySet [{", ".join(v.term for v in vs)}])', 'set')
        if isinstance(e, (ast.Tuple, ast.List)):
            return V(None, 'tuple', [self.ex(x) for x in e.elts])
        if isinstance(e, ast.BinOp):
            return self.binop(e)
        if isinstance(e, ast.BoolOp):
            op = ' && ' if isinstance(e.op, ast.And) else ' || '
            return V('(' + op.join(self.want(v, 'bool').term for v in e.values) + ')', 'bool')
        if isinstance(e, ast.Compare):
            return self.compare(e)
        if isinstance(e, ast.Call):
            return self.call(e)
        self.bad(e, f'expression {type(e).__name__}: {_src(e)}')

    def attr(self, e):
        s = _src(e)
        if s in self.env:                       # self.level, self.n_nodes, self.tau_matrix, self.n_var, …
            return self.env[s]
        if isinstance(e.value, ast.Name) and e.value.id in ('np', 'cls', 'Edge', 'Bivariate'):
            self.bad(e, f'attribute {s}')
        o = self.ex(e.value)
        if o.ty == 'edge':
            if e.attr in ('L', 'R'):
                return V(f'{o.term}.{e.attr}', 'nat')
            if e.attr == 'D':
                return V(f'{o.term}.D', 'set')
        if o.ty == 'newedge' and e.attr in o.aux:
            return o.aux[e.attr]
        self.bad(e, f'attribute `{s}` of a value of type {o.ty}')

    def subscript(self, e):
        sl = e.slice
        # neg_tau[a][b]
        if isinstance(e.value, ast.Subscript):
            inner = self.ex(e.value.value)
            if inner.ty in ('matfun', 'mat') and not isinstance(e.value.slice, (ast.Tuple, ast.Slice)):
                return self.cell(inner, e.value.slice, sl, e)
        o = self.ex(e.value)
        if o.ty in ('matfun', 'mat') and isinstance(sl, ast.Tuple) and len(sl.elts) == 2:
            r, c = sl.elts
            full = lambda x: isinstance(x, ast.Slice) and x.lower is None and x.upper is None and x.step is None
            if o.ty == 'mat' and full(c) and not full(r):
                return V(f'(matRow {o.term} {self.want(r, "nat").term})', 'numlist')
            if o.ty == 'mat' and full(r) and not full(c):
                return V(f'(matCol {o.term} {self.want(c, "nat").term})', 'numlist')
            return self.cell(o, r, c, e)
        if o.ty == 'tree':
            return V(f'({o.term}.getD {self.want(sl, "nat").term} default)', 'edge', self.want(sl, 'nat').term)
        if o.ty == 'pair' and isinstance(sl, ast.Constant) and sl.value in (0, 1):
            return V(f'{o.term}.{sl.value + 1}', 'nat')
        if o.ty == 'natlist':
            if isinstance(sl, ast.Constant) and sl.value == 0:
                return V(f'(pyFirst {o.term})', 'nat')
            if isinstance(sl, ast.UnaryOp) and isinstance(sl.op, ast.USub) and isinstance(sl.operand, ast.Constant) \
                    and sl.operand.value == 1:
                return V(f'(pyLast {o.term})', 'nat')
            return V(None, 'natlist-item', (o, self.want(sl, 'nat')))
        if o.ty == 'numlist' and o.aux == 'tauT1':
            return V(None, 'tauT1-item', self.want(sl, 'nat'))
        if o.ty == 'table':
            return self.table_cell(o, sl, e)
        if o.ty == 'temp' and isinstance(sl, ast.Tuple) and len(sl.elts) == 2:
            r, c = sl.elts
            if isinstance(r, ast.Constant) and isinstance(c, ast.Constant) and c.value in o.aux:
                kind, f = o.aux[c.value]
                if kind == 'idx':
                    return V(f(str(r.value)), 'nat')
            self.bad(e, f'`{_src(e)}`: only a constant cell of an `np.arange` column can be read here')
        self.bad(e, f'subscript `{_src(e)}` of a {o.ty}')

    def cell(self, m, r, c, node):
        rv, cv = self.want(r, 'nat'), self.want(c, 'nat')
        if m.ty == 'mat':
            return V(f'{m.term}.get {rv.term} {cv.term}', 'num')
        return V(m.aux(rv.term, cv.term), 'num')

    def table_cell(self, o, sl, node):
        """`tau_sorted[pos, col]`: `pos` the loop variable (row variable `row`) or the constants 0 / 1 (`s0`, `s1`)"""
        if not (isinstance(sl, ast.Tuple) and len(sl.elts) == 2 and isinstance(sl.elts[1], ast.Constant)
                and sl.elts[1].value in (0, 1, 2)):
            self.bad(node, f'`{_src(node)}`: a cell `[row, <constant column 0..2>]` of the sorted array is expected')
        r, c = sl.elts[0], sl.elts[1].value
        if isinstance(r, ast.Slice):
            if r.lower is None and r.step is None and isinstance(r.upper, ast.Constant) and r.upper.value == 2 \
                    and self.allow_consts and c != 0:
                return V(f'[s0.c{c}, s1.c{c}]', 'numlist', 'tauT1')
            self.bad(node, f'slice `{_src(node)}` of the sorted array')
        if isinstance(r, ast.Name) and r.id == self.loopvar:
            rowt = 'row'
        elif isinstance(r, ast.Constant) and r.value in (0, 1) and self.allow_consts:
            rowt = f's{r.value}'
        else:
            self.bad(node, f'`{_src(node)}`: row index of the sorted array is neither the loop variable nor 0 / 1')
        return V(f'{rowt}.c{c}', 'nat' if c == 0 else 'num', 'tablecell')

    def binop(self, e):
        a, b = self.ex(e.left), self.ex(e.right)
        sets = {ast.BitAnd: 'pyInter', ast.BitXor: 'pySymDiff', ast.BitOr: 'pyUnion'}
        if a.ty == b.ty == 'set' and type(e.op) in sets:
            return V(f'({sets[type(e.op)]} {a.term} {b.term})', 'set')
        if a.ty == b.ty == 'nat' and isinstance(e.op, (ast.Add, ast.Sub)):
            return V(f'({a.term} {"+" if isinstance(e.op, ast.Add) else "-"} {b.term})', 'nat')
        if isinstance(e.op, ast.Mult):
            # `-1.0 * x` / `x * -1.0`: exact negation in IEEE arithmetic (table)
            for k, x in ((e.left, b), (e.right, a)):
                if self.num_const(k) == '(-(NumFns.ofNat 1))':
                    if x.ty == 'num':
                        return V(f'(-{x.term})', 'num')
                    if x.ty == 'matfun':
                        f = x.aux
                        return V(None, 'matfun', lambda i, j, f=f: f'(-{f(i, j)})')
        self.bad(e, f'operator {type(e.op).__name__} on {a.ty} / {b.ty}: {_src(e)}')

    def compare(self, e):
        if len(e.ops) != 1:
            self.bad(e, f'chained comparison {_src(e)}')
        op = e.ops[0]
        a, b = self.ex(e.left), self.ex(e.comparators[0])
        if isinstance(op, (ast.Eq, ast.NotEq)) and a.ty == b.ty == 'nat':
            return V(f'({a.term} {"==" if isinstance(op, ast.Eq) else "!="} {b.term})', 'bool')
        if isinstance(op, (ast.In, ast.NotIn)) and a.ty == 'nat' and b.ty in ('set', 'natset'):
            t = f'{b.term}.contains {a.term}'
            return V(f'({t})' if isinstance(op, ast.In) else f'(!{t})', 'bool')
        if a.ty == b.ty == 'num' and isinstance(op, (ast.Lt, ast.Gt)):
            x, y = (a.term, b.term) if isinstance(op, ast.Lt) else (b.term, a.term)
            return V(f'{x} < {y}', 'prop')
        self.bad(e, f'comparison `{_src(e)}` on {a.ty} / {b.ty}')

    def call(self, e):
        f = _src(e.func)
        args = e.args
        if f == 'int' and len(args) == 1 and not e.keywords:
            v = self.ex(args[0])
            if v.ty != 'nat':
                self.bad(e, f'`{_src(e)}`: int() of a {v.ty} (only a node index — an `np.arange` cell or an argmax — is an int here)')
            return v
        if f == 'len' and len(args) == 1 and not e.keywords:
            v = self.want(args[0], 'set', 'natset')
            return V(f'(pyLen {v.term})' if v.ty == 'set' else f'{v.term}.length', 'nat')
        if f == 'set' and not args and not e.keywords:
            return V('[]', 'set')
        if f == 'sorted' and len(args) == 1 and not e.keywords:
            v = self.ex(args[0])
            if v.ty == 'set':
                return V(f'(pySorted {v.term})', 'sorted')
            if v.ty == 'tuple' and len(v.aux) == 2 and all(x.ty == 'nat' for x in v.aux):
                return V(f'(sortedPair {v.aux[0].term} {v.aux[1].term})', 'sortedpair', v.aux)
            if v.ty == 'tuple' and len(v.aux) == 2 and all(x.ty == 'natlist-item' for x in v.aux):
                return V(None, 'sortedpair-items', v.aux)
            self.bad(e, f'sorted() of a {v.ty}')
        if f in ('abs', 'np.abs', 'np.absolute') and len(args) == 1 and not e.keywords:
            v = self.ex(args[0])
            if v.ty == 'num':
                return V(f'(NumFns.abs {v.term})', 'num')
            if v.ty == 'mat':
                m = v.term
                return V(None, 'matfun', lambda i, j, m=m: f'(NumFns.abs ({m}.get {i} {j}))')
            self.bad(e, f'abs of a {v.ty}')
        if f == 'np.argmax' and len(args) == 1 and not e.keywords:
            return V(f'(argmax {self.want(args[0], "numlist").term})', 'nat')
        if f == 'np.max' and len(args) == 1 and not e.keywords:
            return V(f'(npMax {self.want(args[0], "numlist").term})', 'num')
        if f == 'np.append' and len(args) == 2 and not e.keywords:
            a, b = self.ex(args[0]), self.ex(args[1])
            pairs = {('nat', 'natlist'): 'natlist', ('natlist', 'nat'): 'natlist', ('num', 'numlist'): 'numlist',
                     ('numlist', 'num'): 'numlist'}
            if (a.ty, b.ty) not in pairs:
                self.bad(e, f'np.append of {a.ty} / {b.ty}')
            x = a.term if a.ty.endswith('list') else f'[{a.term}]'
            y = b.term if b.ty.endswith('list') else f'[{b.term}]'
            return V(f'{x} ++ {y}', pairs[(a.ty, b.ty)], a.aux if a.ty.endswith('list') else b.aux)
        if f == 'self._check_constraint' and len(args) == 2 and not e.keywords and 'self.level' in self.env:
            a, b = self.want(args[0], 'edge'), self.want(args[1], 'edge')
            return V(f'checkConstraintPy {self.env["self.level"].term} {a.term} {b.term}', 'bool')
        if f in ('cls._identify_eds_ing', 'Edge._identify_eds_ing') and len(args) == 2 and not e.keywords:
            a, b = self.want(args[0], 'edge'), self.want(args[1], 'edge')
            return V(f'identifyEdsIng {a.term} {b.term}', 'm-identify')
        if f == 'min' and len(args) == 2 and not e.keywords:
            return V(f'(min {self.want(args[0], "nat").term} {self.want(args[1], "nat").term})', 'nat')
        if f == 'self.get_anchor' and not args and not e.keywords:
            return V('(getAnchor n)', 'nat')
        if f == 'self._sort_tau_by_y' and len(args) == 1 and not e.keywords:
            if self.table_y is not None or self.no_table:
                self.bad(e, 'pinned: one call of _sort_tau_by_y, on the tau matrix as received')
            self.table_y = self.want(args[0], 'nat').term
            return V(None, 'table')
        if f == 'set' and len(args) == 1 and _src(args[0]) == 'range(self.n_nodes)' and not e.keywords:
            return V(None, 'allnodes')
        if f == 'Edge' and self.edge_init is not None and not e.keywords:
            return self.new_edge(e)
        self.bad(e, f'call `{_src(e)}`')

    def new_edge(self, e):
        params, body = self.edge_init
        if len(e.args) != len(params):
            self.bad(e, f'Edge(...) with {len(e.args)} arguments, __init__ takes {len(params)}')
        sub = Tx(self.rel, {p: (V(None, 'cop') if self.is_cop(a) else self.ex(a)) for p, a in zip(params, e.args)})
        fields = {}
        for st in body:
            if not (isinstance(st, ast.Assign) and len(st.targets) == 1 and isinstance(st.targets[0], ast.Attribute)
                    and _src(st.targets[0].value) == 'self'):
                sub.bad(st, f'Edge.__init__: statement `{_src(st)}` is not `self.<attr> = <expr>`')
            val = st.value
            if isinstance(val, ast.List) and not val.elts:
                fields[st.targets[0].attr] = V('[]', 'emptylist')
            elif sub.is_cop(val):
                fields[st.targets[0].attr] = V(None, 'cop')
            else:
                fields[st.targets[0].attr] = sub.ex(val)
        for k, ty in (('L', 'nat'), ('R', 'nat'), ('D', 'set'), ('parents', 'none')):
            if k not in fields or fields[k].ty != ty:
                self.bad(e, f'Edge.__init__ does not set self.{k} to a {ty}')
        return V(None, 'newedge', fields)


def edge_term(fields):
    par = fields['parents'].term
    return f'{{ L := {fields["L"].term}, R := {fields["R"].term}, D := {fields["D"].term}, parents := {par} }}'


class Fn(Tx):
    """statement-level translation; what a function does to the structure is collected in attributes"""

    def __init__(self, rel, env=None, edge_init=None):
        super().__init__(rel, env, edge_init)
        self.parents = None       # (i, j): `Edge.sort_edge([edges[i], edges[j]])`
        self.tau = None           # `new_edge.tau = …`
        self.appended = None      # the value appended to `self.edges`
        self.ret = None
        self.loopk = None

    def skip(self, st):
        if isinstance(st, ast.Expr) and isinstance(st.value, ast.Constant):
            return True
        if isinstance(st, ast.Expr) and isinstance(st.value, ast.Call) and _src(st.value.func).startswith('LOGGER.'):
            return True
        return False

    def targets(self, t):
        if isinstance(t, ast.Name):
            return [t.id]
        if isinstance(t, (ast.Tuple, ast.List)) and all(isinstance(x, ast.Name) for x in t.elts):
            return [x.id for x in t.elts]
        return None

    def stmt(self, st):
        if self.skip(st):
            return
        if isinstance(st, ast.Return):
            self.ret = self.ex(st.value)
            return
        if isinstance(st, ast.Expr) and isinstance(st.value, ast.Call):
            c = st.value
            f = _src(c.func)
            if isinstance(c.func, ast.Attribute) and isinstance(c.func.value, ast.Name) and c.func.attr == 'update' \
                    and len(c.args) == 1 and self.env.get(c.func.value.id, V(0, '')).ty == 'set':
                a = self.env[c.func.value.id]
                self.env[c.func.value.id] = V(f'(pyUnion {a.term} {self.want(c.args[0], "set").term})', 'set')
                return
            if f == 'self.edges.append' and len(c.args) == 1:
                if self.appended is not None:
                    self.bad(st, 'a second append to self.edges')
                self.appended = self.ex(c.args[0])
                return
            self.bad(st, f'statement `{_src(st)}`')
        if isinstance(st, ast.Assign) and len(st.targets) == 1:
            t, val = st.targets[0], st.value
            names = self.targets(t)
            if isinstance(t, ast.Attribute) and isinstance(t.value, ast.Name) \
                    and self.env.get(t.value.id, V(0, '')).ty in ('newedge', 'childedge'):
                o = self.env[t.value.id]
                if t.attr == 'tau':
                    if self.tau is not None:
                        self.bad(st, 'a second assignment of .tau')
                    self.tau = self.ex(val)
                    return
                if o.ty == 'newedge' and t.attr == 'D':
                    o.aux['D'] = self.want(val, 'set')
                    return
                if o.ty == 'newedge' and t.attr == 'parents':
                    v = self.ex(val)
                    if not (v.ty == 'tuple' and len(v.aux) == 2 and all(x.ty == 'edge' and x.aux for x in v.aux)):
                        self.bad(st, '.parents is not a list of two edges with known positions')
                    o.aux['parents'] = V(f'some ({v.aux[0].aux}, {v.aux[1].aux})', 'some')
                    return
                self.bad(st, f'assignment to attribute `{_src(t)}`')
            if names is None:
                self.bad(st, f'assignment target `{_src(t)}`')
            if self.is_cop(val):
                for n in names:
                    self.env[n] = V(None, 'cop')
                return
            # Edge.sort_edge([edges[i], edges[j]])
            if isinstance(val, ast.Call) and _src(val.func) == 'Edge.sort_edge' and len(names) == 2:
                if not (len(val.args) == 1 and isinstance(val.args[0], ast.List) and len(val.args[0].elts) == 2
                        and not val.keywords):
                    self.bad(st, f'sort_edge of something else than a two-element list: {_src(val)}')
                a, b = (self.want(x, 'edge') for x in val.args[0].elts)
                if not (a.aux and b.aux) or self.parents is not None:
                    self.bad(st, 'sort_edge: positions of the two edges in the previous tree are not known')
                self.parents = (a.aux, b.aux)
                self.env[names[0]], self.env[names[1]] = V(None, 'sortedparent', 0), V(None, 'sortedparent', 1)
                return
            if isinstance(val, ast.Call) and _src(val.func) == 'Edge.get_child_edge' and len(names) == 1:
                if len(val.args) != 3 or val.keywords:
                    self.bad(st, f'get_child_edge call {_src(val)}')
                ps = [self.ex(x) for x in val.args[1:]]
                if [(p.ty, p.aux) for p in ps] != [('sortedparent', 0), ('sortedparent', 1)]:
                    self.bad(st, 'pinned: get_child_edge receives the two results of sort_edge in their order')
                self.env[names[0]] = V(None, 'childedge')
                return
            v = self.ex(val)
            if v.ty == 'm-identify' and len(names) == 3:
                self.binds.append(f'let (r0, r1, r2) ← {v.term}')
                for n, (tm, ty) in zip(names, (('r0', 'nat'), ('r1', 'nat'), ('r2', 'set'))):
                    self.env[n] = V(tm, ty)
                return
            if v.ty == 'sorted' and len(names) == 2:
                self.binds.append(f'let (u0, u1) ← unpack2 {v.term}')
                self.env[names[0]], self.env[names[1]] = V('u0', 'nat'), V('u1', 'nat')
                return
            if v.ty == 'sortedpair-items' and len(names) == 2:
                (o1, i1), (o2, i2) = [x.aux for x in v.aux]
                k = self.loopk
                if not (o1.term == o2.term == 'T1' and k and i1.term == k and i2.term == f'({k} + 1)'):
                    self.bad(st, 'pinned: the edges of the path join T1[k] and T1[k + 1]')
                self.env[names[0]], self.env[names[1]] = V('(sortedPair a b).1', 'nat'), V('(sortedPair a b).2', 'nat')
                return
            if v.ty == 'sortedpair' and len(names) == 2:
                self.env[names[0]], self.env[names[1]] = V(f'{v.term}.1', 'nat'), V(f'{v.term}.2', 'nat')
                return
            if len(names) == 1:
                self.env[names[0]] = v
                return
            if v.ty == 'tuple' and len(v.aux) == len(names):
                for n, x in zip(names, v.aux):
                    self.env[n] = x
                return
        self.bad(st, f'statement `{_src(st)}`')

    def run(self, stmts):
        for st in stmts:
            self.stmt(st)
        return self


def params(fn, skip=1):
    return [a.arg for a in fn.args.args][skip:]


def span(fn):
    return fn.lineno, fn.end_lineno


def range_count(tx, it):
    """`range(hi)` / `range(lo, hi)` -> (lo term, hi term)"""
    if not (isinstance(it, ast.Call) and _src(it.func) == 'range' and len(it.args) in (1, 2) and not it.keywords):
        tx.bad(it, f'loop over `{_src(it)}` (expected `range(…)`)')
    lo = '0' if len(it.args) == 1 else tx.want(it.args[0], 'nat').term
    return lo, tx.want(it.args[-1], 'nat').term


# ---------------------------------------------------------------------------------------- the functions
def base_env():
    return {'self.n_nodes': V('n', 'nat'), 'self.tau_matrix': V('tau', 'mat'), 'self.level': V('level', 'nat'),
            'self.previous_tree.edges': V('prev', 'tree')}


def gen_identify(edge, report):
    fn = find_method(edge, '_identify_eds_ing')
    ps = params(fn, 0)
    if len(ps) != 2:
        raise Untranslatable(f'{TREE_REL}:{fn.lineno}', '_identify_eds_ing: two parameters expected')
    tx = Fn(TREE_REL, {ps[0]: V('first', 'edge'), ps[1]: V('second', 'edge')}).run(strip_doc(fn.body))
    r = tx.ret
    if not (r and r.ty == 'tuple' and [x.ty for x in r.aux] == ['nat', 'nat', 'set']):
        tx.bad(fn, '_identify_eds_ing does not return (int, int, set)')
    report.append((TREE_REL, 'Edge._identify_eds_ing', *span(fn)))
    body = ''.join(f'  {b}\n' for b in tx.binds) + f'  pure ({r.aux[0].term}, {r.aux[1].term}, {r.aux[2].term})'
    return ('`Edge._identify_eds_ing`',
            f'def identifyEdsIng (first second : Edge) : Except Fail (Nat × Nat × List Nat) := do\n{body}')


def gen_check_constraint(tree, report):
    fn = find_method(tree, '_check_constraint')
    ps = params(fn)
    tx = Fn(TREE_REL, {'self.level': V('level', 'nat'), ps[0]: V('edge1', 'edge'), ps[1]: V('edge2', 'edge')})
    tx.run(strip_doc(fn.body))
    if not (tx.ret and tx.ret.ty == 'bool') or tx.binds:
        tx.bad(fn, '_check_constraint does not return a Boolean')
    report.append((TREE_REL, 'Tree._check_constraint', *span(fn)))
    return ('`Tree._check_constraint`',
            f'def checkConstraintPy (level : Nat) (edge1 edge2 : Edge) : Bool :=\n  {tx.ret.term}')


def gen_is_adjacent(edge, report):
    fn = find_method(edge, 'is_adjacent')
    ps = params(fn, 0)
    tx = Fn(TREE_REL, {ps[0]: V('e', 'edge'), ps[1]: V('f', 'edge')}).run(strip_doc(fn.body))
    if not (tx.ret and tx.ret.ty == 'bool') or tx.binds:
        tx.bad(fn, 'is_adjacent does not return a Boolean')
    report.append((TREE_REL, 'Edge.is_adjacent', *span(fn)))
    return ('`Edge.is_adjacent`', f'def isAdjacentPy (e f : Edge) : Bool :=\n  {tx.ret.term}')


def gen_sort_edge(edge, report):
    fn = find_method(edge, 'sort_edge')
    body = strip_doc(fn.body)
    ps = params(fn, 0)
    tx = Tx(TREE_REL)
    ok = len(body) == 1 and isinstance(body[0], ast.Return) and isinstance(body[0].value, ast.Call)
    c = body[0].value if ok else None
    if not (ok and _src(c.func) == 'sorted' and len(c.args) == 1 and isinstance(c.args[0], ast.Name)
            and c.args[0].id == ps[0] and len(c.keywords) == 1 and c.keywords[0].arg == 'key'
            and isinstance(c.keywords[0].value, ast.Lambda) and len(c.keywords[0].value.args.args) == 1):
        tx.bad(fn, 'pinned: sort_edge is `return sorted(<edges>, key=lambda x: …)` (ascending, stable)')
    lam = c.keywords[0].value
    tx.env[lam.args.args[0].arg] = V('x', 'edge')
    k = tx.ex(lam.body)
    if not (k.ty == 'tuple' and [x.ty for x in k.aux] == ['nat', 'nat']):
        tx.bad(lam, 'the sort key is not a pair of ints')
    report.append((TREE_REL, 'Edge.sort_edge', *span(fn)))
    return ('`Edge.sort_edge`: the `key=` lambda',
            f'def sortEdgeKey (x : Edge) : Nat × Nat := ({k.aux[0].term}, {k.aux[1].term})')


def edge_init_of(edge, report):
    fn = find_method(edge, '__init__')
    report.append((TREE_REL, 'Edge.__init__', *span(fn)))
    return params(fn), strip_doc(fn.body)


def gen_child(edge, init, report):
    fn = find_method(edge, 'get_child_edge')
    ps = params(fn)
    tx = Fn(TREE_REL, {ps[0]: V(None, 'loopidx'), ps[1]: V('left_parent', 'edge', 'posl'),
                       ps[2]: V('right_parent', 'edge', 'posr')}, init).run(strip_doc(fn.body))
    if not (tx.ret and tx.ret.ty == 'newedge'):
        tx.bad(fn, 'get_child_edge does not return the Edge it constructs')
    report.append((TREE_REL, 'Edge.get_child_edge', *span(fn)))
    body = ''.join(f'  {b}\n' for b in tx.binds) + f'  pure {edge_term(tx.ret.aux)}'
    return ('`Edge.get_child_edge` + `Edge.__init__`: the structural attributes of the new edge; `posl`, `posr` are '
            'the positions of the two parents in the previous tree',
            f'def getChildEdge (left_parent right_parent : Edge) (posl posr : Nat) : Except Fail Edge := do\n{body}')


def _full(x):
    return isinstance(x, ast.Slice) and x.lower is None and x.upper is None and x.step is None


def _temp_stmt(tx, st, temps, vecs):
    """`temp = np.empty([n, K])`, `temp[:, c] = <vector>`; returns True when consumed"""
    if not (isinstance(st, ast.Assign) and len(st.targets) == 1):
        return False
    t, val = st.targets[0], st.value
    if isinstance(t, ast.Name) and isinstance(val, ast.Call) and _src(val.func) == 'np.empty' and len(val.args) == 1 \
            and isinstance(val.args[0], ast.List) and len(val.args[0].elts) == 2 \
            and _src(val.args[0].elts[0]) == 'self.n_nodes' and isinstance(val.args[0].elts[1], ast.Constant):
        temps[t.id] = {'ncols': val.args[0].elts[1].value, 'cols': {}}
        return True
    if isinstance(t, ast.Subscript) and isinstance(t.value, ast.Name) and t.value.id in temps \
            and isinstance(t.slice, ast.Tuple) and len(t.slice.elts) == 2 and _full(t.slice.elts[0]) \
            and isinstance(t.slice.elts[1], ast.Constant):
        c = t.slice.elts[1].value
        if not (isinstance(c, int) and 0 <= c < temps[t.value.id]['ncols']):
            tx.bad(st, f'column {c} out of range')
        temps[t.value.id]['cols'][c] = _vec(tx, val, vecs)
        return True
    return False


def _vec(tx, e, vecs):
    if isinstance(e, ast.Name) and e.id in vecs:
        return vecs[e.id]
    if isinstance(e, ast.Call) and _src(e.func) == 'np.arange' and len(e.args) == 1 \
            and _src(e.args[0]) == 'self.n_nodes' and all(k.arg == 'dtype' for k in e.keywords):
        return ('idx', lambda i: i)
    if isinstance(e, ast.Call) and _src(e.func) in ('abs', 'np.abs', 'np.absolute') and len(e.args) == 1 \
            and not e.keywords:
        kind, f = _vec(tx, e.args[0], vecs)
        if kind == 'nv':
            return ('nv', lambda i, f=f: f'(nvAbs {f(i)})')
    return ('other', None)


def gen_sort_tau(tree, report):
    fn = find_method(tree, '_sort_tau_by_y')
    yname = params(fn)[0]
    tx = Tx(TREE_REL, {yname: V('y', 'nat')})
    vecs, temps = {}, {}
    key = desc = order = result = temp = None
    returned = False
    for st in strip_doc(fn.body):
        if _temp_stmt(tx, st, temps, vecs):
            continue
        if isinstance(st, ast.Return):
            if not (isinstance(st.value, ast.Name) and st.value.id == result):
                tx.bad(st, 'pinned: the function returns `temp[<sort order>]`')
            returned = True
            continue
        if not (isinstance(st, ast.Assign) and len(st.targets) == 1):
            tx.bad(st, f'statement `{_src(st)}`')
        t, val = st.targets[0], st.value
        # tau_y = self.tau_matrix[:, y]
        if isinstance(t, ast.Name) and isinstance(val, ast.Subscript) and _src(val.value) == 'self.tau_matrix' \
                and isinstance(val.slice, ast.Tuple) and len(val.slice.elts) == 2:
            r, c = val.slice.elts
            if _full(r) and not _full(c):
                j = tx.want(c, 'nat').term
                vecs[t.id] = ('nv', lambda i, j=j: f'NV.val (tau.get {i} {j})')
                continue
            if _full(c) and not _full(r):
                j = tx.want(r, 'nat').term
                vecs[t.id] = ('nv', lambda i, j=j: f'NV.val (tau.get {j} {i})')
                continue
        # tau_y[y] = np.nan
        if isinstance(t, ast.Subscript) and isinstance(t.value, ast.Name) and t.value.id in vecs \
                and _src(val) in ('np.nan', 'np.NaN', "float('nan')"):
            j = tx.want(t.slice, 'nat').term
            kind, f = vecs[t.value.id]
            if kind != 'nv':
                tx.bad(st, 'NaN written into an index vector')
            vecs[t.value.id] = ('nv', lambda i, j=j, f=f: f'(if {i} == {j} then NV.nan else {f(i)})')
            continue
        # temp[np.isnan(temp)] = -10
        if isinstance(t, ast.Subscript) and isinstance(t.value, ast.Name) and t.value.id in temps \
                and isinstance(t.slice, ast.Call) and _src(t.slice.func) == 'np.isnan' \
                and [_src(a) for a in t.slice.args] == [t.value.id]:
            c = tx.num_const(val)
            if c is None:
                tx.bad(st, f'NaN replacement `{_src(val)}` is not a numeric literal')
            cols = temps[t.value.id]['cols']
            for k, (kind, f) in list(cols.items()):
                if kind == 'nv':
                    cols[k] = ('num', lambda i, f=f, c=c: f'nvFill {f(i)} {c}')
            continue
        # sort_temp = temp[:, 2].argsort()[::-1]
        if isinstance(t, ast.Name) and 'argsort' in _src(val):
            v, rev = val, False
            if isinstance(v, ast.Subscript) and isinstance(v.slice, ast.Slice) and v.slice.lower is None \
                    and v.slice.upper is None and _src(v.slice.step or ast.Constant(1)) == '-1':
                v, rev = v.value, True
            if not (isinstance(v, ast.Call) and isinstance(v.func, ast.Attribute) and v.func.attr == 'argsort'
                    and not v.args and not v.keywords and isinstance(v.func.value, ast.Subscript)
                    and isinstance(v.func.value.value, ast.Name) and v.func.value.value.id in temps
                    and isinstance(v.func.value.slice, ast.Tuple) and _full(v.func.value.slice.elts[0])
                    and isinstance(v.func.value.slice.elts[1], ast.Constant)):
                tx.bad(st, f'pinned: the order is `temp[:, <col>].argsort()` optionally reversed by `[::-1]`')
            temp, key, desc, order = v.func.value.value.id, v.func.value.slice.elts[1].value, rev, t.id
            continue
        # tau_sorted = temp[sort_temp]
        if isinstance(t, ast.Name) and isinstance(val, ast.Subscript) and isinstance(val.value, ast.Name) \
                and val.value.id == temp and isinstance(val.slice, ast.Name) and val.slice.id == order:
            result = t.id
            continue
        tx.bad(st, f'statement `{_src(st)}`')
    if not returned or temp is None:
        tx.bad(fn, '_sort_tau_by_y: no sorted array returned')
    cols = temps[temp]['cols']
    if temps[temp]['ncols'] != 3 or sorted(cols) != [0, 1, 2] or cols[0][0] != 'idx' \
            or cols[1][0] != 'num' or cols[2][0] != 'num':
        tx.bad(fn, 'pinned: `temp` has 3 columns: np.arange, and two float columns whose NaN cells are replaced '
                   f'by a literal (found kinds {[cols[k][0] for k in sorted(cols)]})')
    if key not in (1, 2):
        tx.bad(fn, f'the sort column {key} is not one of the float columns')
    report.append((TREE_REL, 'Tree._sort_tau_by_y', *span(fn)))
    return [('`Tree._sort_tau_by_y`: row `i` of `temp` after the NaN cells were replaced',
             'def sortTauRow (tau : Mat α) (y i : Nat) : TempRow α :=\n'
             f'  {{ c0 := {cols[0][1]("i")}\n    c1 := {cols[1][1]("i")}\n    c2 := {cols[2][1]("i")} }}'),
            ('the column handed to `argsort`', f'def sortTauKey (r : TempRow α) : α := r.c{key}'),
            ('`[::-1]` present', f'def sortTauDescending : Bool := {"true" if desc else "false"}')]


def _loop(tx, body, where, n=1):
    loops = [st for st in body if isinstance(st, ast.For)]
    if len(loops) != n or any(l.orelse for l in loops) or not all(isinstance(l.target, ast.Name) for l in loops):
        tx.bad(where, f'pinned: {n} `for … in range(…)` loop(s) expected')
    return loops


def gen_center_first(cls, init, report):
    fn = find_method(cls, '_build_first_tree')
    body = strip_doc(fn.body)
    tx = Fn(TREE_REL, base_env(), init)
    (loop,) = _loop(tx, body, fn)
    if body[-1] is not loop:
        tx.bad(fn, 'pinned: the loop is the last statement')
    tx.run(body[:-1])
    lo, hi = range_count(tx, loop.iter)
    tx.loopvar = loop.target.id
    tx.env[loop.target.id] = V(None, 'loopidx')
    tx.run(loop.body)
    e = tx.appended
    if not (lo == '0' and e and e.ty == 'newedge' and tx.tau and tx.tau.ty == 'num' and tx.table_y is not None):
        tx.bad(fn, 'pinned: `for itr in range(<count>)`: one Edge(…) with a .tau appended per row of the sorted array')
    report.append((TREE_REL, 'CenterTree._build_first_tree', *span(fn)))
    return [('`CenterTree._build_first_tree`', f'def centerFirstY : Nat := {tx.table_y}'),
            ('', f'def centerFirstCount (n : Nat) : Nat := {hi}'),
            ('', f'def centerFirstEdge (row : TempRow α) : Edge := {edge_term(e.aux)}'),
            ('', f'def centerFirstTau (tau : Mat α) (row : TempRow α) : α := {tx.tau.term}')]


def gen_anchor(cls, report):
    fn = find_method(cls, 'get_anchor')
    tx = Fn(TREE_REL, base_env())
    temps = {}
    for st in strip_doc(fn.body):
        if _temp_stmt(tx, st, temps, {}):
            for name, tv in temps.items():
                tx.env[name] = V(None, 'temp', tv['cols'])
            continue
        tx.stmt(st)
    if not (tx.ret and tx.ret.ty == 'nat'):
        tx.bad(fn, 'get_anchor does not return an index')
    report.append((TREE_REL, 'CenterTree.get_anchor', *span(fn)))
    return [('`CenterTree.get_anchor`', f'def getAnchor (n : Nat) : Nat := {tx.ret.term}')]


def gen_center_kth(cls, init, report):
    fn = find_method(cls, '_build_kth_tree')
    body = strip_doc(fn.body)
    tx = Fn(TREE_REL, base_env(), init)
    (loop,) = _loop(tx, body, fn)
    if body[-1] is not loop:
        tx.bad(fn, 'pinned: the loop is the last statement')
    tx.run(body[:-1])
    lo, hi = range_count(tx, loop.iter)
    tx.loopvar = loop.target.id
    tx.env[loop.target.id] = V(None, 'loopidx')
    tx.run(loop.body)
    e = tx.appended
    if not (lo == '0' and e and e.ty == 'childedge' and tx.tau and tx.tau.ty == 'num' and tx.parents
            and tx.table_y is not None):
        tx.bad(fn, 'pinned: one get_child_edge(…) of two sorted parents with a .tau appended per row')
    report.append((TREE_REL, 'CenterTree._build_kth_tree', *span(fn)))
    return [('`CenterTree._build_kth_tree`', f'def centerKthCount (n : Nat) : Nat := {hi}'),
            ('', f'def centerKthY (n : Nat) : Nat := {tx.table_y}'),
            ('', f'def centerKthParents (n : Nat) (row : TempRow α) : Nat × Nat := ({tx.parents[0]}, {tx.parents[1]})'),
            ('', f'def centerKthTau (row : TempRow α) : α := {tx.tau.term}')]


def _setcol_stmt(tx, st, matname):
    """`tau_matrix[:, X] = c` -> (X value, c term) or None"""
    if isinstance(st, ast.Assign) and len(st.targets) == 1 and isinstance(st.targets[0], ast.Subscript) \
            and isinstance(st.targets[0].value, ast.Name) and st.targets[0].value.id == matname \
            and isinstance(st.targets[0].slice, ast.Tuple) and len(st.targets[0].slice.elts) == 2 \
            and _full(st.targets[0].slice.elts[0]):
        c = tx.num_const(st.value)
        if c is None:
            tx.bad(st, f'mask value `{_src(st.value)}` is not a numeric literal')
        return st.targets[0].slice.elts[1], c
    return None


def gen_direct_first(cls, init, report):
    fn = find_method(cls, '_build_first_tree')
    body = strip_doc(fn.body)
    tx = Fn(TREE_REL, base_env(), init)
    tx.allow_consts = True
    l1, l2 = _loop(tx, body, fn, 2)
    i1 = body.index(l1)
    if body[-1] is not l2 or body[i1 + 1] is not l2:
        tx.bad(fn, 'pinned: initialisation; greedy loop; edge loop')
    # initialisation
    matname = t1name = tt1name = None
    init_defs = None
    for st in body[:i1]:
        if isinstance(st, ast.Assign) and _src(st.value) == 'self.tau_matrix' and isinstance(st.targets[0], ast.Name):
            matname = st.targets[0].id
            tx.env[matname] = V('m', 'mat')
            continue
        sc = _setcol_stmt(tx, st, matname) if matname else None
        if sc:
            idx, c = sc
            if not (isinstance(idx, ast.List) and len(idx.elts) == 1 and isinstance(idx.elts[0], ast.Name)
                    and tx.env.get(idx.elts[0].id, V(0, '')).ty == 'natlist') or init_defs:
                tx.bad(st, 'pinned: one initial mask `tau_matrix[:, [T1]] = <literal>`')
            t1name = idx.elts[0].id
            tts = [k for k, v in tx.env.items() if v.ty == 'numlist' and v.aux == 'tauT1']
            if len(tts) != 1 or tx.table_y is None:
                tx.bad(st, 'pinned: T1 and tau_T1 are initialised from the sorted array before the mask')
            tt1name = tts[0]
            init_defs = (tx.env[t1name].term, tx.env[tt1name].term, f'setCols m T1 {c}')
            tx.env[t1name], tx.env[tt1name] = V('T1', 'natlist'), V('tT1', 'numlist', 'tauT1')
            tx.no_table = True
            continue
        # T1 = np.array([...]).astype(int)
        if isinstance(st, ast.Assign) and isinstance(st.targets[0], ast.Name) and isinstance(st.value, ast.Call) \
                and _src(st.value.func).endswith('.astype') and _src(st.value.args[0]) == 'int' \
                and isinstance(st.value.func.value, ast.Call) and _src(st.value.func.value.func) == 'np.array':
            v = tx.ex(st.value.func.value.args[0])
            if not (v.ty == 'tuple' and all(x.ty == 'nat' for x in v.aux)):
                tx.bad(st, 'T1 is not an array of node indices')
            tx.env[st.targets[0].id] = V('[' + ', '.join(x.term for x in v.aux) + ']', 'natlist')
            continue
        tx.stmt(st)
    if not init_defs:
        tx.bad(fn, 'pinned: initial mask of the selected columns not found')
    # greedy loop
    lo, hi = range_count(tx, l1.iter)
    tx.env[l1.target.id] = V(None, 'loopidx')
    if not (l1.body and isinstance(l1.body[-1], ast.If) and l1.body[-1].orelse):
        tx.bad(l1, 'pinned: the loop body ends with `if <valL cmp valR>: … else: …`')
    tx.run(l1.body[:-1])
    iff = l1.body[-1]
    cond = tx.want(iff.test, 'prop')
    arms = []
    for arm in (iff.body, iff.orelse):
        sub = Fn(TREE_REL, tx.env, init)
        for st in arm:
            sc = _setcol_stmt(sub, st, matname)
            if sc:
                sub.env[matname] = V(f'{sub.env[matname].term}.setCol {sub.want(sc[0], "nat").term} {sc[1]}', 'mat')
            else:
                sub.stmt(st)
        arms.append(f'({sub.env[matname].term}, {sub.env[t1name].term}, {sub.env[tt1name].term})')
    # edge loop
    lo2, hi2 = range_count(tx, l2.iter)
    tx.env[l2.target.id] = V('k', 'nat')
    tx.loopk = 'k'
    tx.run(l2.body)
    e = tx.appended
    if not (lo2 == '0' and e and e.ty == 'newedge' and tx.tau and tx.tau.ty == 'tauT1-item'
            and tx.tau.aux.term == 'k'):
        tx.bad(l2, 'pinned: `for k in range(<count>)`: Edge(k, *sorted([T1[k], T1[k + 1]]), …) with .tau = tau_T1[k]')
    report.append((TREE_REL, 'DirectTree._build_first_tree', *span(fn)))
    return [('`DirectTree._build_first_tree`', f'def directFirstY : Nat := {tx.table_y}'),
            ('', f'def directInitT1 (s0 s1 : TempRow α) : List Nat := {init_defs[0]}'),
            ('', f'def directInitTauT1 (s0 s1 : TempRow α) : List α := {init_defs[1]}'),
            ('', f'def directInitMask (m : Mat α) (T1 : List Nat) : Mat α := {init_defs[2]}'),
            ('', f'def directLoopCount (n : Nat) : Nat := ({hi} - {lo})'),
            ('', 'def directStep (m : Mat α) (T1 : List Nat) (tT1 : List α) : Mat α × List Nat × List α :=\n'
                 f'  if {cond.term} then\n    {arms[0]}\n  else\n    {arms[1]}'),
            ('', f'def directEdgeCount (n : Nat) : Nat := {hi2}'),
            ('', f'def directFirstEdge (a b : Nat) : Edge := {edge_term(e.aux)}')]


def gen_direct_kth(cls, init, report):
    fn = find_method(cls, '_build_kth_tree')
    body = strip_doc(fn.body)
    tx = Fn(TREE_REL, base_env(), init)
    (loop,) = _loop(tx, body, fn)
    if body[-1] is not loop:
        tx.bad(fn, 'pinned: the loop is the last statement')
    tx.run(body[:-1])
    lo, hi = range_count(tx, loop.iter)
    tx.env[loop.target.id] = V('k', 'nat')
    tx.run(loop.body)
    e = tx.appended
    if not (lo == '0' and e and e.ty == 'childedge' and tx.tau and tx.tau.ty == 'num' and tx.parents):
        tx.bad(fn, 'pinned: one get_child_edge(…) of two sorted parents with a .tau appended per k')
    report.append((TREE_REL, 'DirectTree._build_kth_tree', *span(fn)))
    return [('`DirectTree._build_kth_tree`', f'def directKthCount (n : Nat) : Nat := {hi}'),
            ('', f'def directKthParents (k : Nat) : Nat × Nat := ({tx.parents[0]}, {tx.parents[1]})'),
            ('', f'def directKthTau (tau : Mat α) (k : Nat) : α := {tx.tau.term}')]


def gen_regular(cls, init, report, kth):
    fn = find_method(cls, '_build_kth_tree' if kth else '_build_first_tree')
    pre = 'regKth' if kth else 'regFirst'
    body = strip_doc(fn.body)
    tx = Fn(TREE_REL, base_env(), init)
    if not (body and isinstance(body[-1], ast.While) and not body[-1].orelse):
        tx.bad(fn, 'pinned: initialisation, then one `while len(<visited>) != self.n_nodes:` loop')
    wh = body[-1]
    tx.run(body[:-1])
    t = wh.test
    if not (isinstance(t, ast.Compare) and len(t.ops) == 1 and isinstance(t.ops[0], ast.NotEq)
            and isinstance(t.left, ast.Call) and _src(t.left.func) == 'len' and len(t.left.args) == 1
            and isinstance(t.left.args[0], ast.Name) and _src(t.comparators[0]) == 'self.n_nodes'
            and tx.env.get(t.left.args[0].id, V(0, '')).ty == 'set'):
        tx.bad(wh, 'pinned: `while len(<visited>) != self.n_nodes:`')
    xname = t.left.args[0].id
    start = tx.env[xname].term
    unvis = [k for k, v in tx.env.items() if v.ty == 'allnodes']
    tx.env[xname] = V('vis', 'natset')
    stmts = list(wh.body)
    # adj_set = set()
    st = stmts.pop(0)
    if not (isinstance(st, ast.Assign) and isinstance(st.targets[0], ast.Name) and _src(st.value) == 'set()'):
        tx.bad(st, 'pinned: the loop body starts with `adj_set = set()`')
    adj = st.targets[0].id
    # for x in X: for k in range(n): if COND: adj_set.add((a, b))
    f1 = stmts.pop(0)
    ok = isinstance(f1, ast.For) and isinstance(f1.target, ast.Name) and _src(f1.iter) == xname \
        and len(f1.body) == 1 and isinstance(f1.body[0], ast.For) and not f1.orelse
    f2 = f1.body[0] if ok else None
    ok = ok and isinstance(f2.target, ast.Name) and _src(f2.iter) == 'range(self.n_nodes)' and len(f2.body) == 1 \
        and isinstance(f2.body[0], ast.If) and not f2.body[0].orelse and len(f2.body[0].body) == 1
    add = f2.body[0].body[0] if ok else None
    if not (ok and isinstance(add, ast.Expr) and isinstance(add.value, ast.Call)
            and _src(add.value.func) == f'{adj}.add' and len(add.value.args) == 1):
        tx.bad(f1, 'pinned: `for x in <visited>: for k in range(self.n_nodes): if <cond>: adj_set.add((…, …))`')
    sub = Fn(TREE_REL, tx.env, init)
    sub.env[f1.target.id], sub.env[f2.target.id] = V('x', 'nat'), V('k', 'nat')
    cond = sub.want(f2.body[0].test, 'bool')
    pair = sub.ex(add.value.args[0])
    if not (pair.ty == 'tuple' and [p.ty for p in pair.aux] == ['nat', 'nat']):
        tx.bad(add, 'the candidate is not a pair of node indices')
    # kth: the empty-candidate-set branch
    if kth:
        st = stmts.pop(0)
        want = f'if len({adj}) == 0: {xname}.add(list({unvis[0] if unvis else "?"})[0]) continue'
        if ' '.join(ast.unparse(st).split()) != want:
            tx.bad(st, f'pinned: `{want}` (the branch that never terminates: `Fail.diverges`)')
    # edge = sorted(adj_set, key=lambda e: KEY)[0]
    st = stmts.pop(0)
    v = st.value if isinstance(st, ast.Assign) else None
    if not (v is not None and isinstance(st.targets[0], ast.Name) and isinstance(v, ast.Subscript)
            and isinstance(v.slice, ast.Constant) and v.slice.value == 0 and isinstance(v.value, ast.Call)
            and _src(v.value.func) == 'sorted' and [_src(a) for a in v.value.args] == [adj]
            and len(v.value.keywords) == 1 and v.value.keywords[0].arg == 'key'
            and isinstance(v.value.keywords[0].value, ast.Lambda)
            and len(v.value.keywords[0].value.args.args) == 1):
        tx.bad(st, 'pinned: `<chosen> = sorted(adj_set, key=lambda e: …)[0]`')
    lam = v.value.keywords[0].value
    ksub = Fn(TREE_REL, tx.env, init)
    ksub.env[lam.args.args[0].arg] = V('e', 'pair')
    key = ksub.want(lam.body, 'num')
    chosen = st.targets[0].id
    tx.env[chosen] = V('e', 'pair')
    # the rest: edge construction, X.add(e[1]) [, unvisited.remove(e[1])]
    added = None
    for st in stmts:
        if isinstance(st, ast.Expr) and isinstance(st.value, ast.Call) and len(st.value.args) == 1 \
                and _src(st.value.func) in (f'{xname}.add',) + tuple(f'{u}.remove' for u in unvis):
            a = tx.want(st.value.args[0], 'nat').term
            if _src(st.value.func).endswith('.add'):
                if added is not None:
                    tx.bad(st, 'a second add to the visited set')
                added = a
            elif added != a:
                tx.bad(st, 'pinned: the node removed from `unvisited` is the one added to `visited`')
            continue
        tx.stmt(st)
    e = tx.appended
    if not (e and added and tx.tau and tx.tau.ty == 'num' and e.ty == ('childedge' if kth else 'newedge')
            and (tx.parents or not kth)):
        tx.bad(fn, 'pinned: one edge with a .tau appended and one node added to the visited set per iteration')
    report.append((TREE_REL, f'RegularTree.{fn.name}', *span(fn)))
    lv = '(level : Nat) (prev : Tree) ' if kth else ''
    out = [(f'`RegularTree.{fn.name}`', f'def {pre}Start : List Nat := {start}'),
           ('', f'def {pre}Cand {lv}(vis : List Nat) (x k : Nat) : Bool :=\n  {cond.term}'),
           ('', f'def {pre}Pair (x k : Nat) : Nat × Nat := ({pair.aux[0].term}, {pair.aux[1].term})'),
           ('', f'def {pre}Key (tau : Mat α) (e : Nat × Nat) : α := {key.term}')]
    if kth:
        out.append(('', f'def {pre}Parents (e : Nat × Nat) : Nat × Nat := ({tx.parents[0]}, {tx.parents[1]})'))
    else:
        out.append(('', f'def {pre}Edge (e : Nat × Nat) : Edge := {edge_term(e.aux)}'))
    out += [('', f'def {pre}Tau (tau : Mat α) (e : Nat × Nat) : α := {tx.tau.term}'),
            ('', f'def {pre}Add (e : Nat × Nat) : Nat := {added}')]
    return out


def gen_fit(tree, report):
    fn = find_method(tree, 'fit')
    ps = params(fn)
    tx = Fn(TREE_REL, {ps[0]: V('index', 'nat'), ps[1]: V('n', 'nat')})
    level = test = None
    shape = []
    for st in ast.walk(fn):
        if isinstance(st, ast.Assign) and _src(st.targets[0]) == 'self.level':
            if level is not None:
                tx.bad(st, 'a second assignment of self.level')
            level = tx.want(st.value, 'nat')
            tx.env['self.level'] = level
    body = strip_doc(fn.body)
    outer = [st for st in body if isinstance(st, ast.If)]
    if len(outer) != 1 or _src(outer[0].test) != 'not self.edges' or outer[0].orelse:
        tx.bad(fn, 'pinned: `if not self.edges:` around the construction')
    inner = [st for st in outer[0].body if isinstance(st, ast.If)]
    calls = lambda ss: [_src(s.value.func) for s in ss if isinstance(s, ast.Expr) and isinstance(s.value, ast.Call)]
    if level is None or len(inner) != 1 or calls(inner[0].body) != ['self._build_first_tree'] \
            or calls(inner[0].orelse) != ['self._build_kth_tree'] \
            or calls(outer[0].body) != ['self.prepare_next_tree'] or outer[0].body[0] is not inner[0]:
        tx.bad(fn, 'pinned: `if <first>: self._build_first_tree() else: self._build_kth_tree()` then '
                   '`self.prepare_next_tree()`')
    test = tx.want(inner[0].test, 'bool')
    report.append((TREE_REL, 'Tree.fit', *span(fn)))
    return [('`Tree.fit`', f'def fitLevel (index : Nat) : Nat := {level.term}'),
            ('', f'def fitIsFirst (index : Nat) : Bool := {test.term}')]


def gen_train(vine, report):
    fn = find_method(vine, 'train_vine')
    tx = Fn(VINE_REL, {'self.n_var': V('d', 'nat'), 'self.truncated': V('t', 'nat')})
    body = [st for st in strip_doc(fn.body) if not tx.skip(st)]
    fits = []

    def fit_call(st, k=None):
        c = st.value
        if len(c.args) != 4 or c.keywords:
            tx.bad(st, f'fit call {_src(c)}')
        return tx.want(c.args[0], 'nat').term, tx.want(c.args[1], 'nat').term, c.args[3]

    loops = [st for st in body if isinstance(st, ast.For)]
    if len(loops) != 1 or body[-1] is not loops[0]:
        tx.bad(fn, 'pinned: first tree, then one `for k in range(lo, hi)` loop')
    head = [_src(st) for st in body[:-1]]
    firsts = [st for st in body[:-1] if isinstance(st, ast.Expr) and isinstance(st.value, ast.Call)
              and _src(st.value.func).endswith('.fit')]
    if len(firsts) != 1 or len(body) != 4 or 'get_tree(tree_type)' not in head[0] \
            or not head[2].startswith('self.trees.append('):
        tx.bad(fn, 'pinned: `tree_1 = get_tree(tree_type); tree_1.fit(…); self.trees.append(tree_1)`')
    i0, n0, _ = fit_call(firsts[0])
    loop = loops[0]
    lo, hi = range_count(tx, loop.iter)
    k = loop.target.id
    tx.env[k] = V('k', 'nat')
    lb = [st for st in loop.body if not tx.skip(st)]
    src = [_src(st, 200) for st in lb]
    fitk = [st for st in lb if isinstance(st, ast.Expr) and isinstance(st.value, ast.Call)
            and _src(st.value.func).endswith('.fit')]
    if len(lb) != 5 or len(fitk) != 1 or lb[3] is not fitk[0] or not src[0].endswith('._get_constraints()') \
            or not src[1].endswith('.get_tau_matrix()') or 'get_tree(tree_type)' not in src[2] \
            or not src[4].startswith('self.trees.append('):
        tx.bad(loop, 'pinned: `_get_constraints(); tau = get_tau_matrix(); tree_k = get_tree(…); tree_k.fit(…); '
                     'self.trees.append(tree_k)`')
    ik, nk, prev = fit_call(fitk[0])
    prevs = set()
    for node in [lb[0].value.func.value, lb[1].value.func.value, prev]:
        if not (isinstance(node, ast.Subscript) and _src(node.value) == 'self.trees'):
            tx.bad(loop, 'pinned: the previous tree is `self.trees[<expr>]`')
        prevs.add(tx.want(node.slice, 'nat').term)
    if len(prevs) != 1:
        tx.bad(loop, f'the three references to the previous tree differ: {sorted(prevs)}')
    report.append((VINE_REL, 'VineCopula.train_vine', *span(fn)))
    return [('`VineCopula.train_vine`', f'def trainFirstIndex : Nat := {i0}'),
            ('', f'def trainFirstNodes (d : Nat) : Nat := {n0}'),
            ('', f'def trainLoopLo : Nat := {lo}'),
            ('', f'def trainLoopHi (d t : Nat) : Nat := {hi}'),
            ('', f'def trainKthIndex (k : Nat) : Nat := {ik}'),
            ('', f'def trainKthNodes (d k : Nat) : Nat := {nk}'),
            ('', f'def trainKthPrev (k : Nat) : Nat := {prevs.pop()}')]


def gen_vine_fit(vine, report):
    fn = find_method(vine, 'fit')
    ps = params(fn)
    tx = Fn(VINE_REL, {'self.n_var': V('d', 'nat')})
    if len(ps) != 2 or len(fn.args.defaults) != 1 or not isinstance(fn.args.defaults[0], ast.Constant) \
            or not isinstance(fn.args.defaults[0].value, int):
        tx.bad(fn, 'pinned: `fit(self, X, truncated=<int>)`')
    tx.env[ps[1]] = V('truncated', 'nat')
    got = {}
    calls = []
    for st in strip_doc(fn.body):
        if isinstance(st, ast.Assign) and _src(st.targets[0]) in ('self.truncated', 'self.depth'):
            if _src(st.targets[0]) in got:
                tx.bad(st, f'a second assignment of {_src(st.targets[0])}')
            got[_src(st.targets[0])] = tx.want(st.value, 'nat').term
        if isinstance(st, ast.Expr) and isinstance(st.value, ast.Call) and _src(st.value.func) == 'self.train_vine':
            calls.append(st)
    if sorted(got) != ['self.depth', 'self.truncated'] or len(calls) != 1:
        tx.bad(fn, 'pinned: `self.truncated = …`, `self.depth = …`, one call of self.train_vine')
    report.append((VINE_REL, 'VineCopula.fit', fn.lineno, calls[0].end_lineno))
    return [('head of `VineCopula.fit`', f'def fitDefaultTruncated : Nat := {fn.args.defaults[0].value}'),
            ('', f'def fitTruncated (truncated : Nat) : Nat := {got["self.truncated"]}'),
            ('', f'def fitDepth (d : Nat) : Nat := {got["self.depth"]}')]


def generate(repo):
    report = []
    with open(os.path.join(repo, TREE_REL)) as fh:
        ttree = ast.parse(fh.read(), filename=TREE_REL)
    with open(os.path.join(repo, VINE_REL)) as fh:
        vtree = ast.parse(fh.read(), filename=VINE_REL)
    edge, tree = find_class(ttree, 'Edge'), find_class(ttree, 'Tree')
    center, direct, regular = (find_class(ttree, c) for c in ('CenterTree', 'DirectTree', 'RegularTree'))
    vine = find_class(vtree, 'VineCopula')
    init = edge_init_of(edge, report)
    plain = [gen_identify(edge, report), gen_check_constraint(tree, report), gen_is_adjacent(edge, report),
             gen_sort_edge(edge, report), gen_child(edge, init, report)]
    num = gen_sort_tau(tree, report) + gen_center_first(center, init, report) + gen_anchor(center, report) \
        + gen_center_kth(center, init, report) + gen_direct_first(direct, init, report) \
        + gen_direct_kth(direct, init, report) + gen_regular(regular, init, report, False) \
        + gen_regular(regular, init, report, True) + gen_fit(tree, report) + gen_train(vine, report) \
        + gen_vine_fit(vine, report)

    def emit(defs):
        return '\n'.join((f'/-- {_doc(doc)} -/\n' if doc else '') + src + '\n' for doc, src in defs)

    text = HEADER + emit(plain) + SECTION + emit(num) + SKELETON
    return text, report


if __name__ == '__main__':
    import sys
    t, rep = generate(sys.argv[1] if len(sys.argv) > 1 else os.environ.get('COPULAS_REPO', '/repo'))
    print(t)
    print(rep, file=sys.stderr)
